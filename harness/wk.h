/* Worker framework shared by all harness binaries: enumerates a strided shard
 * of a check's case space inside forked children, survives crashes of the
 * code under test, and writes a JSON summary for bin/check. */
#ifndef WK_H
#define WK_H
#include "vf.h"

typedef struct {
    int status;            /* 0 pass, 1 fail, 2 skipped (case outside the property's premise) */
    int nontrivial;
    uint64_t outcome;      /* hash of the observable outcome (distinct-outcome statistic) */
    char msg[480];
    char sig[96];          /* failure signature, matched against known_findings.json */
} vres;

#define WK_NCOUNT 48
#define WK_NRATIO 8
#define WK_NCLASS 96
#define WK_NEX 3
#define WK_OUTCAP (1u << 19)
typedef struct {
    volatile long cur_idx; volatile int cur_flags; volatile int cur_phase;
    char where[512]; int crash_sig;
    volatile int done, deadline_hit, one_case_done; long resume_idx;
    long evaluations, nontrivial, skipped, nfail, ncrash;
    double max_ratio[WK_NRATIO];
    long counters[WK_NCOUNT];
    int nclass;
    struct { char sig[96]; long count; int nex; char ex_case[WK_NEX][640]; char ex_msg[WK_NEX][480]; } cls[WK_NCLASS];
    int nsamples; char samples[4][640];
    long noutcomes; uint64_t outcomes[WK_OUTCAP];
} wk_shm;
extern wk_shm *wk;

typedef struct vf_check {
    const char *name;
    long (*size)(int tier);
    void (*decode)(int tier, long idx, vcase *c);
    void (*run)(const vcase *c, vres *r);
    const char *const *counter_names;   /* NULL-terminated */
    const char *const *ratio_names;     /* NULL-terminated */
    const char *rule;
    void (*describe)(int tier, char *buf, size_t cap);   /* JSON object text describing the bound */
} vf_check;
extern const vf_check vf_checks[];
extern const int vf_nchecks;

#define WK_COUNT(i) (wk->counters[i]++)
#define WK_ADD(i, v) (wk->counters[i] += (v))
#define WK_RATIO(i, x) do { double x_ = (x); if (x_ > wk->max_ratio[i]) wk->max_ratio[i] = x_; } while (0)
/* flags describing the input about to be handed to the library (used to classify crashes) */
#define WK_FLAG_SINGULAR 1      /* exactly singular (structurally or by exact elimination) */
#define WK_FLAG_FAULT    2      /* allocation fault injected / workspace shortage expected */
#define WK_SET_FLAGS(f) (wk->cur_flags = (f))
#define WK_PHASE(p) (wk->cur_phase = (p))

int wk_fail(vres *r, const char *sig, const char *fmt, ...);
int wk_main(int argc, char **argv);
int wk_sig_known(const char *sig);  /* does the signature match one of the --known-sig patterns (recorded findings of this check)? */
extern int wk_fork_per_case;       /* set by a harness before wk_main: every case runs in its own child of the pristine parent (process-lifetime state of the library starts fresh) */
extern const char *wk_variant;    /* variant name given on the command line */
extern int wk_tier;
extern int wk_verbose;   /* replay mode: checks may print details to stderr */

/* mixed-radix helper: dims[] sizes, returns digits */
static inline void wk_unrank(long idx, const int *dims, int nd, int *dig)
{ for (int d = nd - 1; d >= 0; d--) { dig[d] = (int)(idx % dims[d]); idx /= dims[d]; } }
static inline long wk_prod(const int *dims, int nd) { long p = 1; for (int d = 0; d < nd; d++) p *= dims[d]; return p; }
#endif
