/* Property-level oracles evaluated on the dense reference model. */
#include "vf.h"
#include <stdarg.h>

static int fail(verdict *v, const char *fmt, ...)
{
    va_list ap; va_start(ap, fmt); vsnprintf(v->msg, sizeof v->msg, fmt, ap); va_end(ap); return 1;
}

/* ------------------------------------------------------------- C03 structure */
int check_LU_structure(const vf_type *T, const SuperMatrix *L, const SuperMatrix *U, int m, int n, int ilu, verdict *v)
{
    if (L->Stype != SLU_SC || L->Dtype != T->dtype || L->Mtype != SLU_TRLU) return fail(v, "L tags wrong (Stype %d Dtype %d Mtype %d)", L->Stype, L->Dtype, L->Mtype);
    if (U->Stype != SLU_NC || U->Dtype != T->dtype || U->Mtype != SLU_TRU) return fail(v, "U tags wrong (Stype %d Dtype %d Mtype %d)", U->Stype, U->Dtype, U->Mtype);
    if (L->nrow != m || L->ncol != n) return fail(v, "L dims %d x %d, expected %d x %d", (int)L->nrow, (int)L->ncol, m, n);
    if (U->nrow != n || U->ncol != n) return fail(v, "U dims %d x %d, expected %d x %d", (int)U->nrow, (int)U->ncol, n, n);
    const SCformat *Ls = L->Store; const NCformat *Us = U->Store;
    if (!Ls || !Us) return fail(v, "null Store");
    long nsuper = (long)Ls->nsuper;
    if (nsuper < 0 || nsuper > n - 1) return fail(v, "nsuper=%ld out of range for n=%d", nsuper, n);
    if (Ls->sup_to_col[0] != 0) return fail(v, "sup_to_col[0]=%d", Ls->sup_to_col[0]);
    if (Ls->sup_to_col[nsuper + 1] != n) return fail(v, "sup_to_col[nsuper+1]=%d != n=%d", Ls->sup_to_col[nsuper + 1], n);
    if (Ls->nzval_colptr[0] != 0) return fail(v, "nzval_colptr[0]=%ld", (long)Ls->nzval_colptr[0]);
    if (Ls->rowind_colptr[0] != 0) return fail(v, "rowind_colptr[0]=%ld", (long)Ls->rowind_colptr[0]);
    if (Us->colptr[0] != 0) return fail(v, "U colptr[0]=%ld", (long)Us->colptr[0]);
    long nnzL = 0, nnzU = 0, lsum = 0, vsum = 0;
    for (long s = 0; s <= nsuper; s++) {
        int f = Ls->sup_to_col[s], e = Ls->sup_to_col[s + 1];
        if (!(f < e)) return fail(v, "supernode %ld empty or decreasing: [%d,%d)", s, f, e);
        if (e > n) return fail(v, "supernode %ld end %d > n", s, e);
        long r0 = (long)Ls->rowind_colptr[f], r1 = (long)Ls->rowind_colptr[f + 1];
        long len = r1 - r0, w = e - f;
        if (r0 != lsum) return fail(v, "rowind_colptr[%d]=%ld, expected %ld (lists must be contiguous)", f, r0, lsum);
        if (len < w) return fail(v, "supernode %ld: %ld rows < %ld columns", s, len, w);
        unsigned long seen = 0;
        for (long k = 0; k < len; k++) {
            long i = (long)Ls->rowind[r0 + k];
            if (i < 0 || i >= m) return fail(v, "supernode %ld: row index %ld out of [0,%d)", s, i, m);
            if (k < w) { if (i != f + k) return fail(v, "supernode %ld: leading row %ld is %ld, expected %ld", s, k, i, (long)f + k); }
            else if (i < e) return fail(v, "supernode %ld: trailing row %ld not below the supernode (last col %d)", s, i, e - 1);
            if (seen >> i & 1) return fail(v, "supernode %ld: row %ld repeated", s, i);
            seen |= 1ul << i;
        }
        for (int j = f; j < e; j++) {
            if (Ls->col_to_sup[j] != s) return fail(v, "col_to_sup[%d]=%d, expected %ld", j, Ls->col_to_sup[j], s);
            long c0 = (long)Ls->nzval_colptr[j], c1 = (long)Ls->nzval_colptr[j + 1];
            if (c0 != vsum) return fail(v, "nzval_colptr[%d]=%ld, expected %ld", j, c0, vsum);
            if (c1 - c0 != len) return fail(v, "column %d stores %ld values, supernode row list has %ld", j, c1 - c0, len);
            vsum += len;
            if (j > f && (long)Ls->rowind_colptr[j] != r1) {
                /* interior columns point at the end of the supernode's list */
                return fail(v, "rowind_colptr[%d]=%ld, expected %ld (end of supernode list)", j, (long)Ls->rowind_colptr[j], r1);
            }
            nnzL += len - (j - f);
            nnzU += j - f + 1;
            /* U column j */
            long u0 = (long)Us->colptr[j], u1 = (long)Us->colptr[j + 1];
            if (u1 < u0) return fail(v, "U colptr not monotone at %d", j);
            unsigned long useen = 0, unz = 0;
            for (long k = u0; k < u1; k++) {
                long i = (long)Us->rowind[k];
                if (i < 0 || i >= f) return fail(v, "U column %d holds row %ld, not strictly above its supernode (first col %d)", j, i, f);
                int nzv = (T->ld(Us->nzval, k) != 0);
                if (useen >> i & 1) {
                    if (!ilu) return fail(v, "U column %d repeats row %ld", j, i);
                    /* incomplete LU may list a row twice, but only with an explicit zero: two non-zero values for one position have no meaning */
                    if (nzv && (unz >> i & 1)) return fail(v, "U column %d repeats row %ld with a second non-zero value", j, i);
                }
                useen |= 1ul << i; if (nzv) unz |= 1ul << i;
            }
            nnzU += u1 - u0;
        }
        lsum += len;
    }
    if ((long)Ls->rowind_colptr[n] != lsum) return fail(v, "rowind_colptr[n]=%ld, expected %ld", (long)Ls->rowind_colptr[n], lsum);
    if ((long)Ls->nzval_colptr[n] != vsum) return fail(v, "nzval_colptr[n]=%ld, expected %ld", (long)Ls->nzval_colptr[n], vsum);
    if ((long)Ls->nnz != nnzL) return fail(v, "Lstore->nnz=%ld, structure has %ld", (long)Ls->nnz, nnzL);
    if ((long)Us->nnz != nnzU) return fail(v, "Ustore->nnz=%ld, structure has %ld", (long)Us->nnz, nnzU);
    /* touch the last element of each array (sanitizer builds turn an undersized array into a report) */
    volatile long sink = 0;
    if (lsum > 0) sink += (long)Ls->rowind[lsum - 1];
    if (vsum > 0) sink += (long)cabsl(T->ld(Ls->nzval, vsum - 1)) * 0;
    if (Us->colptr[n] > 0) { sink += (long)Us->rowind[Us->colptr[n] - 1]; sink += (long)cabsl(T->ld(Us->nzval, Us->colptr[n] - 1)) * 0; }
    (void)sink;
    return 0;
}

/* --------------------------------------------------------- C02 LU identity
 * A is m x n (the matrix that was factored, in factored orientation);
 * Ld is m x n unit lower trapezoidal, Ud n x n upper.
 * Row i of A is row perm_r[i] of Pr*A; column perm_c[j] of A*Pc is column j of A. */
int check_LU_identity(const vf_type *T, const dmat *A, const dmat *Ld, const dmat *Ud, const int *perm_r, const int *perm_c, double c, verdict *v)
{
    int m = A->m, n = A->n; xr worst = 0;
    for (int i = 0; i < m; i++) for (int j = 0; j < n; j++) {
        /* (Pr A Pc)(perm_r[i], perm_c[j]) = A(i,j) */
        int pi = perm_r[i], pj = perm_c[j];
        xc lu = 0; xr alu = 0;
        int kmax = pi < pj ? pi : pj;
        for (int k = 0; k <= kmax && k < n; k++) { xc t = DM(Ld, pi, k) * DM(Ud, k, pj); lu += t; alu += cabsl(DM(Ld, pi, k)) * cabsl(DM(Ud, k, pj)); }
        xr err = cabsl(DM(A, i, j) - lu);
        xr allow = (xr)c * n * T->eps * alu + (xr)c * n * T->sfmin;
        if (err > allow) {
            v->ratio = allow > 0 ? (double)(err / allow) : INFINITY;
            return fail(v, "(Pr*A*Pc - L*U)[%d,%d]: |%Lg%+Lgi - (%Lg%+Lgi)| = %Lg > %g*n*eps*|L||U| = %Lg", pi, pj,
                        creall(DM(A, i, j)), cimagl(DM(A, i, j)), creall(lu), cimagl(lu), err, c, allow);
        }
        if (allow > 0 && err / allow > worst) worst = err / allow;
    }
    v->ratio = (double)worst;
    return 0;
}
