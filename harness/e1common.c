#include "e1.h"

int ref_solve(const dmat *A, int trans, const dmat *B, dmat *X)
{
    int n = A->n; xc M[NMAX][NMAX + NMAX]; int nr = B->n;
    for (int i = 0; i < n; i++) { for (int j = 0; j < n; j++) { xc v = trans ? DM(A, j, i) : DM(A, i, j); if (trans == 2) v = conjl(v); M[i][j] = v; } for (int c = 0; c < nr; c++) M[i][n + c] = DM(B, i, c); }
    for (int k = 0; k < n; k++) {
        int p = k; xr best = cabsl(M[k][k]);
        for (int i = k + 1; i < n; i++) if (cabsl(M[i][k]) > best) { best = cabsl(M[i][k]); p = i; }
        if (best == 0) return 1;
        if (p != k) for (int j = 0; j < n + nr; j++) { xc t = M[p][j]; M[p][j] = M[k][j]; M[k][j] = t; }
        for (int i = k + 1; i < n; i++) { xc l = M[i][k] / M[k][k]; if (l == 0) continue; for (int j = k; j < n + nr; j++) M[i][j] -= l * M[k][j]; }
    }
    memset(X, 0, sizeof *X); X->m = n; X->n = nr;
    for (int c = 0; c < nr; c++) for (int i = n - 1; i >= 0; i--) { xc s = M[i][n + c]; for (int j = i + 1; j < n; j++) s -= M[i][j] * DM(X, j, c); DM(X, i, c) = s / M[i][i]; }
    return 0;
}

int ref_numerically_singular(const dmat *A)
{
    int n = A->n; if (A->m != n) return 0;
    xc M[NMAX][NMAX]; xr amax = 0;
    for (int i = 0; i < n; i++) for (int j = 0; j < n; j++) { M[i][j] = DM(A, i, j); if (cabsl(M[i][j]) > amax) amax = cabsl(M[i][j]); }
    if (amax == 0) return 1;
    for (int k = 0; k < n; k++) {
        int p = k; xr best = cabsl(M[k][k]);
        for (int i = k + 1; i < n; i++) if (cabsl(M[i][k]) > best) { best = cabsl(M[i][k]); p = i; }
        xr colmax = 0; for (int i = 0; i < n; i++) if (cabsl(DM(A, i, k)) > colmax) colmax = cabsl(DM(A, i, k));
        if (best <= 1e-11L * (colmax > 0 ? colmax : amax)) return 1;
        if (p != k) for (int j = 0; j < n; j++) { xc t = M[p][j]; M[p][j] = M[k][j]; M[k][j] = t; }
        for (int i = k + 1; i < n; i++) { xc l = M[i][k] / M[k][k]; for (int j = k; j < n; j++) M[i][j] -= l * M[k][j]; }
    }
    return 0;
}

void fill_options(const vcase *c, superlu_options_t *o, int *perm_c, int n)
{
    set_default_options(o);
    static const colperm_t cp[] = { NATURAL, MMD_ATA, MMD_AT_PLUS_A, COLAMD, MY_PERMC };
    o->ColPerm = cp[c->colperm];
    o->DiagPivotThresh = c->u;
    o->SymmetricMode = c->sym ? YES : NO;
    o->PrintStat = NO;
    if (c->colperm == 4) {
        if (c->permid < 0) for (int i = 0; i < n; i++) perm_c[i] = n - 1 - i;
        else perm_unrank(n, c->permid, perm_c);
    }
}

uint64_t hash_LU(const vf_type *T, const SuperMatrix *L, const SuperMatrix *U)
{
    const SCformat *Ls = L->Store; const NCformat *Us = U->Store; int n = (int)L->ncol; uint64_t h = 0;
    long ns = (long)Ls->nsuper; h = fnv(h, &ns, sizeof ns);
    h = fnv(h, Ls->sup_to_col, sizeof(int) * (ns + 2));
    h = fnv(h, Ls->rowind_colptr, sizeof(int_t) * (n + 1));
    h = fnv(h, Ls->nzval_colptr, sizeof(int_t) * (n + 1));
    h = fnv(h, Ls->rowind, sizeof(int_t) * Ls->rowind_colptr[n]);
    h = fnv(h, Ls->nzval, T->esz * Ls->nzval_colptr[n]);
    h = fnv(h, Us->colptr, sizeof(int_t) * (n + 1));
    h = fnv(h, Us->rowind, sizeof(int_t) * Us->colptr[n]);
    h = fnv(h, Us->nzval, T->esz * Us->colptr[n]);
    return h;
}

void e1_gssv(const vcase *c, fs_run *R)
{
    memset(R, 0, sizeof *R);
    const vf_type *T = vf_T(c->type); R->T = T; int n = c->n; R->n = n; R->m = n;
    make_values(T, n, n, c->pat, c->vals, &R->A);
    sp_from_dense(&R->S, T, &R->A, c->stor);
    /* matrix that is factored */
    if (c->stor == 0) R->F = R->A;
    else { memset(&R->F, 0, sizeof R->F); R->F.m = n; R->F.n = n; for (int i = 0; i < n; i++) for (int j = 0; j < n; j++) { DM(&R->F, j, i) = DM(&R->A, i, j); DZ(&R->F, j, i) = DZ(&R->A, i, j); } }
    make_rhs(T, &R->A, 0, c->rhs, c->nrhs, &R->B0);
    dn_from_dense(&R->D, T, &R->B0, n + c->ldbx, 7777.25);
    dn_to_dense(&R->D, &R->B0);          /* rounded to type */
    R->flags = (pat_struct_rank(n, n, c->pat) < n || ref_numerically_singular(&R->A)) ? WK_FLAG_SINGULAR : 0;
    WK_SET_FLAGS(R->flags);
    superlu_options_t opt; fill_options(c, &opt, R->perm_c, n);
    for (int i = 0; i < n; i++) R->perm_r[i] = -12345;
    if (c->colperm != 4) for (int i = 0; i < n; i++) R->perm_c[i] = -12345;
    StatInit(&R->stat);
    int_t info = -999;
    size_t bbytes = T->esz * (size_t)R->D.ld * (c->nrhs ? c->nrhs : 1);
    void *bcopy = malloc(bbytes); memcpy(bcopy, R->D.val, bbytes);
    dmat A1;
    WK_PHASE(1);
    T->gssv(&opt, &R->S.A, R->perm_c, R->perm_r, &R->L, &R->U, &R->D.M, &R->stat, &info);
    WK_PHASE(2);
    R->info = (long)info;
    R->have_LU = (info >= 0 && info <= n);
    R->expansions = R->stat.expansions;
    R->b_unchanged = memcmp(bcopy, R->D.val, bbytes) == 0;
    /* padding rows must be untouched */
    R->pad_ok = 1;
    for (int j = 0; j < c->nrhs; j++) for (int i = n; i < R->D.ld; i++) if (memcmp((char *)bcopy + T->esz * (i + (size_t)j * R->D.ld), (char *)R->D.val + T->esz * (i + (size_t)j * R->D.ld), T->esz)) R->pad_ok = 0;
    free(bcopy);
    sp_to_dense(&R->S, &A1);
    R->a_unchanged = memcmp(A1.a, R->A.a, sizeof A1.a) == 0 && memcmp(A1.nz, R->A.nz, sizeof A1.nz) == 0;
    dn_to_dense(&R->D, &R->X);
    uint64_t h = fnv(0, &R->info, sizeof R->info);
    if (R->have_LU) {
        R->expand_ok = 0;
    }
    h = fnv(h, R->perm_c, sizeof(int) * n);
    if (info == 0) h = fnv(h, R->perm_r, sizeof(int) * n);
    R->outcome = h;
}
void e1_free(fs_run *R)
{
    if (R->have_LU) { Destroy_SuperNode_Matrix(&R->L); Destroy_CompCol_Matrix(&R->U); R->have_LU = 0; }
    StatFree(&R->stat);
    sp_destroy(&R->S); dn_destroy(&R->D);
}

/* Companion of G for gradual underflow: every stored entry of L and U and every partial sum may be off by one subnormal spacing eta (an ABSOLUTE error, which the
   relative model behind G = |L||U| does not cover), so (L U)_ij is uncertain by eta * W_ij with W_ij = sum_k (|L_ik| + |U_kj|) + n.  Kept for the o_residual call
   that follows build_G. */
static dmat g_uw; static int g_uw_valid = 0;
void build_G(const dmat *Ld, const dmat *Ud, const int *perm_r, const int *perm_c, int transposed, dmat *G)
{
    int n = Ud->n, m = Ld->m;
    memset(G, 0, sizeof *G); G->m = transposed ? n : m; G->n = transposed ? m : n;
    memset(&g_uw, 0, sizeof g_uw); g_uw.m = G->m; g_uw.n = G->n; g_uw_valid = 1;
    for (int i = 0; i < m; i++) for (int j = 0; j < n; j++) {
        int pi = perm_r[i], pj = perm_c[j]; xr s = 0, w = n;
        for (int k = 0; k <= pi && k <= pj && k < n; k++) { s += cabsl(DM(Ld, pi, k)) * cabsl(DM(Ud, k, pj)); w += cabsl(DM(Ld, pi, k)) + cabsl(DM(Ud, k, pj)); }
        if (transposed) { DM(G, j, i) = s; DM(&g_uw, j, i) = w; } else { DM(G, i, j) = s; DM(&g_uw, i, j) = w; }
    }
}

static int finite_xc(xc v) { return isfinite((double)creall(v)) && isfinite((double)cimagl(v)); }

int o_residual(const vf_type *T, const dmat *A, int trans, const dmat *G, const dmat *B, const dmat *X, double cc, vres *r, double *ratio)
{
    int n = A->n; xr worst = 0;
    for (int c = 0; c < B->n; c++) {
        int nonfinite = 0;
        for (int i = 0; i < n; i++) if (!finite_xc(DM(X, i, c))) nonfinite = 1;
        if (nonfinite) {
            dmat Bc, Xr; memset(&Bc, 0, sizeof Bc); Bc.m = n; Bc.n = 1; for (int i = 0; i < n; i++) DM(&Bc, i, 0) = DM(B, i, c);
            xr lim = (T->id == TS || T->id == TC) ? 1e25L : 1e200L; int sing = ref_solve(A, trans, &Bc, &Xr); xr xm = 0;
            if (!sing) for (int i = 0; i < n; i++) if (cabsl(DM(&Xr, i, 0)) > xm) xm = cabsl(DM(&Xr, i, 0));
            if (!sing && xm < lim) return wk_fail(r, "nonfinite-solution", "column %d of X is not finite although the reference solution is (max |x_ref| = %Lg)", c, xm);
            continue;   /* overflow of a legitimately huge solution: outside what the bound can express */
        }
        for (int i = 0; i < n; i++) {
            xc s = DM(B, i, c); xr gx = 0, arow = 0, ux = 0;
            for (int j = 0; j < n; j++) {
                xc a = trans ? DM(A, j, i) : DM(A, i, j); if (trans == 2) a = conjl(a);
                s -= a * DM(X, j, c); arow += cabsl(a);
                gx += (trans ? DM(G, j, i) : DM(G, i, j)) * cabsl(DM(X, j, c));
                if (g_uw_valid && g_uw.m == G->m && g_uw.n == G->n) ux += creall(trans ? DM(&g_uw, j, i) : DM(&g_uw, i, j)) * cabsl(DM(X, j, c));
            }
            xr eta = (xr)T->sfmin * (xr)T->eps * 2;      /* subnormal spacing of the working precision */
            xr err = cabsl(s), allow = (xr)cc * n * T->eps * creall(gx) + (xr)n * T->eps * cabsl(DM(B, i, c))
                                     + (xr)cc * n * T->sfmin * (1 + arow)    /* gradual underflow: each operation may add an absolute error below sfmin */
                                     + (xr)cc * n * eta * ux;                /* ... and an absolute error of one subnormal spacing in a factor entry is multiplied by |x| */
            if (err > allow || err != err) {
                *ratio = allow > 0 ? (double)(err / allow) : INFINITY;
                return wk_fail(r, "residual", "|b - op(A)x|[%d] of rhs %d = %Lg exceeds %g*n*eps*(|L||U||x|) + n*eps*|b| = %Lg", i, c, err, cc, allow);
            }
            if (allow > 0 && err / allow > worst) worst = err / allow;
        }
    }
    *ratio = (double)worst;
    return 0;
}

int o_pivoting(const vf_type *T, const dmat *F, const dmat *Ld, const dmat *Ud, const int *perm_r, const int *perm_c, double u, int check_diag, vres *r, double *ratio, long *ndiag)
{
    int n = Ud->n, m = Ld->m; int iperm_c[NMAX];
    xr s = 32 * (xr)T->eps; xr worst = 0;
    for (int j = 0; j < n; j++) iperm_c[perm_c[j]] = j;
    for (int j = 0; j < n; j++) {
        xc ujj = DM(Ud, j, j);
        if (ujj == 0) return wk_fail(r, "zero-diagonal", "U(%d,%d) is exactly zero although info=0", j, j);
        if (!finite_xc(ujj)) return wk_fail(r, "nonfinite-diagonal", "U(%d,%d) not finite", j, j);
        xr a[NMAX], amax = 0, aj = xmag(T, ujj);
        for (int i = j; i < m; i++) { a[i] = (i == j) ? aj : (DZ(Ld, i, j) ? xmag(T, DM(Ld, i, j) * ujj) : 0); if (a[i] > amax) amax = a[i]; }
        /* multiplier bound 1/u */
        for (int i = j + 1; i < m; i++) if (DZ(Ld, i, j)) {
            xr l = T->cplx ? cabsl(DM(Ld, i, j)) : fabsl(creall(DM(Ld, i, j)));
            xr bound = (u > 0 ? 1.0L / (xr)u : INFINITY) * (T->cplx ? 1.4142135623730951L : 1.0L) * (1 + s);
            if (l > bound || l != l) return wk_fail(r, "multiplier-bound", "|L(%d,%d)| = %Lg exceeds 1/u = %g", i, j, l, u > 0 ? 1 / u : INFINITY);
            if (u > 0 && l * u > worst) worst = l * u / (T->cplx ? 1.4142135623730951L : 1.0L);
        }
        if (!check_diag) continue;
        int d = iperm_c[j];           /* original column index == diagonal row of Pc'*A*Pc */
        int p = (d < m) ? perm_r[d] : -1;
        if (p == j) {
            (*ndiag)++;
            if (aj < (xr)u * amax * (1 - s)) return wk_fail(r, "diag-pivot-below-threshold", "column %d: diagonal chosen as pivot with magnitude %Lg < u*max = %Lg", j, aj, (xr)u * amax);
        } else {
            if (aj < amax * (1 - s)) return wk_fail(r, "pivot-not-max", "column %d: off-diagonal pivot magnitude %Lg is not the column maximum %Lg", j, aj, amax);
            if (p > j && DZ(Ld, p, j) && a[p] != 0 && a[p] >= (xr)u * amax * (1 + s))
                return wk_fail(r, "diag-not-preferred", "column %d: diagonal candidate (row %d) has magnitude %Lg >= u*max = %Lg but was not chosen", j, p, a[p], (xr)u * amax);
        }
    }
    *ratio = (double)worst;
    return 0;
}

void dmat_print(const char *name, const dmat *A)
{
    fprintf(stderr, "%s (%d x %d):\n", name, A->m, A->n);
    for (int i = 0; i < A->m; i++) { for (int j = 0; j < A->n; j++) { if (cimagl(DM(A, i, j)) != 0) fprintf(stderr, " %10.4Lg%+.4Lgi", creall(DM(A, i, j)), cimagl(DM(A, i, j))); else fprintf(stderr, " %12.6Lg", creall(DM(A, i, j))); } fprintf(stderr, "\n"); }
}
void e1_dump(const fs_run *R)
{
    if (!wk_verbose) return;
    fprintf(stderr, "info=%ld flags=%d expansions=%d\n", R->info, R->flags, R->expansions);
    dmat_print("A", &R->A);
    fprintf(stderr, "perm_c:"); for (int i = 0; i < R->n; i++) fprintf(stderr, " %d", R->perm_c[i]);
    fprintf(stderr, "\nperm_r:"); for (int i = 0; i < R->n; i++) fprintf(stderr, " %d", R->perm_r[i]); fprintf(stderr, "\n");
    if (R->have_LU) {
        const SCformat *Ls = R->L.Store; const NCformat *Us = R->U.Store;
        fprintf(stderr, "nsuper=%ld sup_to_col:", (long)Ls->nsuper); for (int s = 0; s <= Ls->nsuper + 1; s++) fprintf(stderr, " %d", Ls->sup_to_col[s]);
        fprintf(stderr, "\nrowind_colptr:"); for (int j = 0; j <= R->n; j++) fprintf(stderr, " %ld", (long)Ls->rowind_colptr[j]);
        fprintf(stderr, "\nrowind:"); for (long k = 0; k < Ls->rowind_colptr[R->n]; k++) fprintf(stderr, " %ld", (long)Ls->rowind[k]);
        fprintf(stderr, "\nnzval_colptr:"); for (int j = 0; j <= R->n; j++) fprintf(stderr, " %ld", (long)Ls->nzval_colptr[j]);
        fprintf(stderr, "\nLnz:"); for (long k = 0; k < Ls->nzval_colptr[R->n]; k++) fprintf(stderr, " %Lg", creall(R->T->ld(Ls->nzval, k)));
        fprintf(stderr, "\nU colptr:"); for (int j = 0; j <= R->n; j++) fprintf(stderr, " %ld", (long)Us->colptr[j]);
        fprintf(stderr, "\nU rowind:"); for (long k = 0; k < Us->colptr[R->n]; k++) fprintf(stderr, " %ld", (long)Us->rowind[k]);
        fprintf(stderr, "\n");
        if (R->expand_ok) { dmat_print("L", &R->Ld); dmat_print("U", &R->Ud); }
    }
    dmat_print("B0", &R->B0); dmat_print("X", &R->X);
}
