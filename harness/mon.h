#ifndef MON_H
#define MON_H
#include <stdint.h>
#define MON_MAXT 4
#define MON_MAXP 4096
#define MON_MAXS 16384        /* open-addressing table of shared locations (power of two) */
typedef struct {
    int nthreads; volatile int running; int finished[MON_MAXT], started[MON_MAXT];
    /* choice sequence: prefix to replay, then default choice 0 */
    unsigned char prefix[MON_MAXP]; int prefix_len; int diverged, overflow;
    long npoints; unsigned char pt_enabled[MON_MAXP], pt_choice[MON_MAXP], pt_running_enabled[MON_MAXP], pt_kind[MON_MAXP];
    int cur_kind; long switches;
    /* monitor */
    long accesses, foreign;
    int nshared; uintptr_t sh_addr[MON_MAXS]; unsigned sh_readers[MON_MAXS], sh_writers[MON_MAXS]; unsigned char sh_kind[MON_MAXS];
    int sh_overflow;
    int conflict; uintptr_t conflict_addr; int conflict_kind, conflict_write, conflict_tid;
} mon_state;
extern mon_state mon;
void mon_begin(int nthreads, const unsigned char *prefix, int prefix_len);
void mon_release_first(void);
void mon_end(void);
void mon_thread_begin(int tid);
void mon_thread_end(void);
void mon_arena_fill(int tid, int byte);
/* written set: shared 8-byte granules written by any thread in any execution since the last reset (persists across executions).  A read of a granule outside
   the set is independent of every other operation and is therefore not a scheduling point (partial-order reduction); when the set grows, the harness is re-explored. */
void mon_wset_reset(void);
extern int mon_wset_grew; extern long mon_wset_size;
#endif
