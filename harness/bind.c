/* Instantiates the binding layer for the four arithmetic types and provides
 * conversion between the dense reference model and library objects. */
#include "vf.h"
#include "slu_sdefs.h"
#include "slu_ddefs.h"
#include "slu_cdefs.h"
#include "slu_zdefs.h"

/* the norm routines have no prototype in the public headers (the drivers declare them locally) */
extern float slangs(char *, SuperMatrix *); extern double dlangs(char *, SuperMatrix *); extern float clangs(char *, SuperMatrix *); extern double zlangs(char *, SuperMatrix *);
#define P s
#define ELT float
#define REAL float
#define CPLX 0
#define TID TS
#define LETTER 's'
#define DT SLU_S
#include "bind.inc"
#undef P
#undef ELT
#undef REAL
#undef CPLX
#undef TID
#undef LETTER
#undef DT

#define P d
#define ELT double
#define REAL double
#define CPLX 0
#define TID TD
#define LETTER 'd'
#define DT SLU_D
#include "bind.inc"
#undef P
#undef ELT
#undef REAL
#undef CPLX
#undef TID
#undef LETTER
#undef DT

#define P c
#define ELT singlecomplex
#define REAL float
#define CPLX 1
#define TID TC
#define LETTER 'c'
#define DT SLU_C
#include "bind.inc"
#undef P
#undef ELT
#undef REAL
#undef CPLX
#undef TID
#undef LETTER
#undef DT

#define P z
#define ELT doublecomplex
#define REAL double
#define CPLX 1
#define TID TZ
#define LETTER 'z'
#define DT SLU_Z
#include "bind.inc"

vf_type vf_types_rw[4];
const vf_type *vf_T(int id)
{
    static int init = 0;
    if (!init) {
        vf_types_rw[0] = e_s; vf_types_rw[1] = e_d; vf_types_rw[2] = e_c; vf_types_rw[3] = e_z;
        for (int i = 0; i < 4; i++) {
            int single = (i == TS || i == TC);
            vf_types_rw[i].eps   = single ? (double)smach("E") : dmach("E");
            vf_types_rw[i].sfmin = single ? (double)smach("S") : dmach("S");
        }
        init = 1;
    }
    return &vf_types_rw[id];
}

/* ------------------------------------------------ dense model <-> sparse */
void sp_from_dense(vf_sparse *S, const vf_type *T, dmat *A, int stor)
{
    int m = A->m, n = A->n; int_t nnz = 0;
    for (int j = 0; j < n; j++) for (int i = 0; i < m; i++) if (DZ(A, i, j)) nnz++;
    S->T = T; S->m = m; S->n = n; S->nnz = nnz; S->stor = stor;
    S->nzval = SUPERLU_MALLOC(T->esz * (nnz ? nnz : 1));
    S->ind = (int_t *)SUPERLU_MALLOC(sizeof(int_t) * (nnz ? nnz : 1));
    int np = (stor == 0 ? n : m) + 1;
    S->ptr = (int_t *)SUPERLU_MALLOC(sizeof(int_t) * np);
    int_t k = 0;
    if (stor == 0) {
        for (int j = 0; j < n; j++) { S->ptr[j] = k; for (int i = 0; i < m; i++) if (DZ(A, i, j)) { T->st(S->nzval, k, (double _Complex)DM(A, i, j)); DM(A, i, j) = T->ld(S->nzval, k); S->ind[k++] = i; } }
        S->ptr[n] = k;
        T->Create_CompCol(&S->A, m, n, nnz, S->nzval, S->ind, S->ptr, SLU_NC, T->dtype, SLU_GE);
    } else {
        for (int i = 0; i < m; i++) { S->ptr[i] = k; for (int j = 0; j < n; j++) if (DZ(A, i, j)) { T->st(S->nzval, k, (double _Complex)DM(A, i, j)); DM(A, i, j) = T->ld(S->nzval, k); S->ind[k++] = j; } }
        S->ptr[m] = k;
        T->Create_CompRow(&S->A, m, n, nnz, S->nzval, S->ind, S->ptr, SLU_NR, T->dtype, SLU_GE);
    }
}
void sp_to_dense(const vf_sparse *S, dmat *A)
{
    memset(A, 0, sizeof *A); A->m = S->m; A->n = S->n;
    if (S->stor == 0) { for (int j = 0; j < S->n; j++) for (int_t k = S->ptr[j]; k < S->ptr[j + 1]; k++) { DM(A, S->ind[k], j) = S->T->ld(S->nzval, k); DZ(A, S->ind[k], j) = 1; } }
    else { for (int i = 0; i < S->m; i++) for (int_t k = S->ptr[i]; k < S->ptr[i + 1]; k++) { DM(A, i, S->ind[k]) = S->T->ld(S->nzval, k); DZ(A, i, S->ind[k]) = 1; } }
}
void sp_destroy(vf_sparse *S)
{
    if (S->nzval) SUPERLU_FREE(S->nzval);
    if (S->ind) SUPERLU_FREE(S->ind);
    if (S->ptr) SUPERLU_FREE(S->ptr);
    if (S->A.Store) SUPERLU_FREE(S->A.Store);
    memset(S, 0, sizeof *S);
}
void dn_from_dense(vf_dense *D, const vf_type *T, const dmat *B, int ld, double padval)
{
    int m = B->m, nrhs = B->n; if (ld < m) ld = m; if (ld < 1) ld = 1;
    D->T = T; D->m = m; D->nrhs = nrhs; D->ld = ld;
    D->val = SUPERLU_MALLOC(T->esz * (size_t)ld * (nrhs ? nrhs : 1));
    for (int j = 0; j < nrhs; j++) for (int i = 0; i < ld; i++)
        T->st(D->val, i + (long)j * ld, i < m ? (double _Complex)DM(B, i, j) : (double _Complex)(padval + (T->cplx ? padval * I : 0)));
    T->Create_Dense(&D->M, m, nrhs, D->val, ld, SLU_DN, T->dtype, SLU_GE);
}
void dn_to_dense(const vf_dense *D, dmat *B)
{
    memset(B, 0, sizeof *B); B->m = D->m; B->n = D->nrhs;
    for (int j = 0; j < D->nrhs; j++) for (int i = 0; i < D->m; i++) { DM(B, i, j) = D->T->ld(D->val, i + (long)j * D->ld); DZ(B, i, j) = 1; }
}
void dn_destroy(vf_dense *D)
{
    if (D->val) SUPERLU_FREE(D->val);
    if (D->M.Store) SUPERLU_FREE(D->M.Store);
    memset(D, 0, sizeof *D);
}

/* ------------------------------------------------------ factor expansion */
int expand_L(const vf_type *T, const SuperMatrix *L, dmat *Ld)
{
    const SCformat *Ls = L->Store; int m = (int)L->nrow, n = (int)L->ncol;
    memset(Ld, 0, sizeof *Ld); Ld->m = m; Ld->n = n;
    if (m > NMAX || n > NMAX) return -1;
    for (int s = 0; s <= Ls->nsuper; s++) {
        int f = Ls->sup_to_col[s], l = Ls->sup_to_col[s + 1];
        int_t r0 = Ls->rowind_colptr[f], r1 = Ls->rowind_colptr[f + 1];
        for (int j = f; j < l; j++) {
            int_t v0 = Ls->nzval_colptr[j];
            for (int_t k = r0; k < r1; k++) {
                int_t i = Ls->rowind[k];
                if (i < 0 || i >= m) return -2;
                if (i > j) { DM(Ld, i, j) = T->ld(Ls->nzval, v0 + (k - r0)); DZ(Ld, i, j) = 1; }
            }
            if (j < m) { DM(Ld, j, j) = 1; DZ(Ld, j, j) = 1; }
        }
    }
    return 0;
}
int expand_U(const vf_type *T, const SuperMatrix *L, const SuperMatrix *U, dmat *Ud)
{
    const SCformat *Ls = L->Store; const NCformat *Us = U->Store; int n = (int)U->ncol, m = (int)L->nrow;
    memset(Ud, 0, sizeof *Ud); Ud->m = n; Ud->n = n;
    if (n > NMAX || m > NMAX) return -1;
    for (int s = 0; s <= Ls->nsuper; s++) {
        int f = Ls->sup_to_col[s], l = Ls->sup_to_col[s + 1];
        int_t r0 = Ls->rowind_colptr[f], r1 = Ls->rowind_colptr[f + 1];
        for (int j = f; j < l; j++) {
            int_t v0 = Ls->nzval_colptr[j];
            for (int_t k = r0; k < r1; k++) {
                int_t i = Ls->rowind[k];
                if (i < 0 || i >= m) return -2;
                if (i <= j) { DM(Ud, i, j) += T->ld(Ls->nzval, v0 + (k - r0)); DZ(Ud, i, j) = 1; }
            }
        }
    }
    for (int j = 0; j < n; j++) for (int_t k = Us->colptr[j]; k < Us->colptr[j + 1]; k++) {
        int_t i = Us->rowind[k];
        if (i < 0 || i >= n) return -3;
        DM(Ud, i, j) += T->ld(Us->nzval, k); DZ(Ud, i, j) = 1;   /* ILU may repeat a row: sum */
    }
    return 0;
}
