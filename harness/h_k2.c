/* Engine E1, kernel-level checks: C14 (sparse triangular solves and products). */
#include "e1.h"

static const char *const CNT[] = { "trsv_calls", "trsv_lower", "trsv_upper", "trsv_trans", "trsv_conj", "trsv_lowercase", "trsv_unit_upper", "trsv_L_nonunit_skipped", "gstrs_calls", "gstrs_nrhs0", "gstrs_multi_rhs", "gstrs_padded",
    "gemv_calls", "gemv_beta0_nan_y", "gemv_rect", "gemm_calls", "multi_col_supernode_factors", "singleton_factors", "bitwise_equal_single_vs_multi", "bitwise_diff_single_vs_multi", "gemv_strided", NULL };
enum { K_TRSV, K_TL, K_TU, K_TT, K_TC, K_TLC, K_TUU, K_TLN, K_GS, K_GS0, K_GSM, K_GSP, K_MV, K_MVNAN, K_MVRECT, K_MM, K_MULTI, K_SINGLE, K_BEQ, K_BNE, K_MVSTR };
static const char *const RAT[] = { "trsv_residual_over_allowance", "gstrs_residual_over_allowance", "gemv_error_over_allowance", NULL };

static const char *UPLO[] = { "L", "U", "l", "u" };
static const char *TRN[] = { "N", "T", "C", "n", "t", "c" };
static const char *DIAG[] = { "U", "N", "u", "n" };
static double _Complex coef(const vf_type *T, int k) { switch (k) { case 0: return 0; case 1: return 1; case 2: return -1; case 3: return 2.5; default: return T->cplx ? I : 0.5; } }

/* --------------------------------------------------------------- families
 * sub: 0 trsv, 1 gstrs, 2 gemv, 3 gemm; k encodes the flag combination */
static const int TUNE_K[] = { 2, 3, 5, 9 };
static void set_src(vcase *c, int fam, int p, int dev, int vals, int tune, int type, int cp)
{
    if (fam == 0) { all123(p, &c->n, &c->pat); } else { c->n = 6; c->pat = dev1_pattern(6, base_pattern(6, p), dev); }
    c->m = c->n; c->vals = (int[]){ 1, 15, 7 }[vals]; set_tune(c, TUNE_K[tune]); c->type = type; c->colperm = (int[]){ 0, 3 }[cp]; c->u = 1.0; c->nrhs = 1; c->rhs = 1; c->permid = -1;
}
static void s14_trsv_a(const int *d, vcase *c) { set_src(c, 0, d[0], 0, d[1], d[2], d[3], 0); c->aux = 0; c->k = d[4]; c->rhs = d[0] % 4 + 1; }
static void s14_trsv_b(const int *d, vcase *c) { set_src(c, 1, d[0], d[1], d[2], d[3], d[4], d[5]); c->aux = 0; c->k = d[6]; c->rhs = d[1] % 4 + 1; }
static void s14_gstrs_a(const int *d, vcase *c) { set_src(c, 0, d[0], 0, d[1], d[2], d[3], 0); c->aux = 1; c->trans = d[4]; c->nrhs = d[5]; c->ldbx = (int[]){ 0, 1, 3 }[d[6]]; c->stor = d[7]; }
static void s14_gstrs_b(const int *d, vcase *c) { set_src(c, 1, d[0], d[1], d[2], d[3], d[4], d[5]); c->aux = 1; c->trans = d[6]; c->nrhs = d[7]; c->ldbx = (int[]){ 0, 1, 3 }[d[8]]; }
static const int RM[] = { 2, 3, 3, 1, 2, 4 }, RN[] = { 1, 1, 2, 2, 3, 2 };
static long roff[7]; static long rtotal(void) { long s = 0; for (int k = 0; k < 6; k++) { roff[k] = s; s += 1L << (RM[k] * RN[k]); } roff[6] = s; return s; }
static void s14_gemv_sq(const int *d, vcase *c) { all123(d[0], &c->n, &c->pat); c->m = c->n; c->vals = (int[]){ 15, 7 }[d[1]]; c->type = d[2]; c->aux = 2; c->trans = d[3]; c->k = d[4] * 5 + d[5]; c->rhs = 1; }
static void s14_gemv_rect(const int *d, vcase *c) { rtotal(); int k = 0; while (d[0] >= roff[k + 1]) k++; c->m = RM[k]; c->n = RN[k]; c->pat = (uint64_t)(d[0] - roff[k]); c->vals = (int[]){ 15, 7 }[d[1]]; c->type = d[2]; c->aux = 2; c->trans = d[3]; c->k = d[4] * 5 + d[5]; c->rhs = 1; }
static void s14_gemv_str(const int *d, vcase *c) { s14_gemv_rect(d, c); c->aux2 = 1 + d[6]; }
static void s14_gemm(const int *d, vcase *c) { s14_gemv_rect(d, c); c->aux = 3; c->nrhs = 1 + d[6]; c->ldbx = d[7]; }
static void s14_gemm_sq(const int *d, vcase *c) { s14_gemv_sq(d, c); c->aux = 3; c->nrhs = 1 + d[6]; c->ldbx = d[7]; }
static const family F14[] = {
    { "sp_xtrsv on factors of ALL(1..3) x vals3 x tune4 x type4 x 96 flag combinations (uplo4 x trans6 x diag4)", 5, { N_ALL123, 3, 4, 4, 96 }, s14_trsv_a },
    { "sp_xtrsv on factors of DEV_1(BASE(6)) first 10 deviations x vals3 x tune4 x type4 x ordering2 x 96 flag combinations", 7, { 9, 10, 3, 4, 4, 2, 96 }, s14_trsv_b },
    { "xgstrs on factors of ALL(1..3) x vals3 x tune4 x type4 x trans3 x nrhs{0..3} x ldb{n,n+1,n+3} x storage2", 8, { N_ALL123, 3, 4, 4, 3, 4, 3, 2 }, s14_gstrs_a },
    { "xgstrs on factors of DEV_1(BASE(6)) first 10 deviations x vals3 x tune4 x type4 x ordering2 x trans3 x nrhs{0..3} x ldb3", 9, { 9, 10, 3, 4, 4, 2, 3, 4, 3 }, s14_gstrs_b },
    { "sp_xgemv on ALL(1..3) x vals2 x type4 x trans6 x alpha5 x beta5", 6, { N_ALL123, 2, 4, 6, 5, 5 }, s14_gemv_sq },
    { "sp_xgemv on all patterns of 2x1,3x1,3x2,1x2,2x3,4x2 x vals2 x type4 x trans6 x alpha5 x beta5", 6, { 2 + 8 + 64 + 4 + 64 + 256, 2, 4, 6, 5, 5 }, s14_gemv_rect },
    { "sp_xgemv with strides as documented: rectangular patterns x vals2 x type4 x trans6 x alpha5 x beta5 x increment{2,3,-1,-2} of the free vector (x for N, y for T/C)", 7, { 2 + 8 + 64 + 4 + 64 + 256, 2, 4, 6, 5, 5, 4 }, s14_gemv_str },
    { "sp_xgemm on rectangular patterns x vals2 x type4 x transa6 x alpha5 x beta5 x ncols{1,2} x padding2", 8, { 2 + 8 + 64 + 4 + 64 + 256, 2, 4, 6, 5, 5, 2, 2 }, s14_gemm },
    { "sp_xgemm on ALL(1..2) x vals2 x type4 x transa6 x alpha5 x beta5 x ncols{1,2} x padding2", 8, { 18, 2, 4, 6, 5, 5, 2, 2 }, s14_gemm_sq },
};
#define NF(F) ((int)(sizeof F / sizeof *F))
static long sz_14(int tier) { return fam_total(F14, NF(F14)); }
static void dec_14(int tier, long idx, vcase *c) { fam_decode(F14, NF(F14), idx, c); }
static void desc_14(int tier, char *b, size_t cap) { fam_describe(F14, NF(F14), b, cap); }

static xc opT(const dmat *Tm, int trans, int i, int j) { xc v = trans ? DM(Tm, j, i) : DM(Tm, i, j); return trans == 2 ? conjl(v) : v; }

static void run_trsv(const vcase *c, vres *r)
{
    fs_run R; e1_gssv(c, &R); const vf_type *T = R.T; int n = c->n;
    if (R.info != 0) { r->status = 2; goto done; }
    if (expand_L(T, &R.L, &R.Ld) || expand_U(T, &R.L, &R.U, &R.Ud)) { wk_fail(r, "structure", "cannot expand factors"); goto done; }
    {
        const SCformat *Ls = R.L.Store; if (Ls->nsuper < n - 1) WK_COUNT(K_MULTI); else WK_COUNT(K_SINGLE);
        int iu = c->k / 24, it = (c->k / 4) % 6, id = c->k % 4;
        int lower = (iu % 2 == 0), trans = it % 3, unit = (id % 2 == 0), lowercase = (iu >= 2 || it >= 3 || id >= 2);
        if (lower && !unit) { WK_COUNT(K_TLN); r->status = 2; goto done; }   /* "L with its stored diagonal" is not a defined operand: the diagonal slots of the supernodal block hold U */
        WK_COUNT(K_TRSV); WK_COUNT(lower ? K_TL : K_TU); if (trans == 1) WK_COUNT(K_TT); if (trans == 2) WK_COUNT(K_TC); if (lowercase) WK_COUNT(K_TLC); if (!lower && unit) WK_COUNT(K_TUU);
        dmat Tm = lower ? R.Ld : R.Ud;
        if (unit) for (int i = 0; i < n; i++) DM(&Tm, i, i) = 1;
        char xb[NMAX * 16]; dmat b; memset(&b, 0, sizeof b);
        for (int i = 0; i < n; i++) { xc v = (xr)((i * 3 + c->rhs) % 5 + 1) * ((i & 1) ? -0.5L : 1.0L); if (T->cplx) v *= (1 + (xr)(i % 3) * 0.25L * I); if (c->rhs == 2 && i % 2) v = 0; T->st(xb, i, (double _Complex)v); DM(&b, i, 0) = T->ld(xb, i); }
        uint64_t h0 = hash_LU(T, &R.L, &R.U); SuperLUStat_t st; StatInit(&st); int info = -99;
        T->sp_trsv((char *)UPLO[iu], (char *)TRN[it], (char *)DIAG[id], &R.L, &R.U, xb, &st, &info);
        StatFree(&st);
        r->nontrivial = n >= 2; r->outcome = (uint64_t)(info + 10) * 97 + c->k;
        if (info != 0) { wk_fail(r, lowercase ? "trsv-lowercase-rejected" : "trsv-info", "sp_%ctrsv(\"%s\",\"%s\",\"%s\") returned info=%d for a documented flag spelling", T->letter, UPLO[iu], TRN[it], DIAG[id], info); goto done; }
        if (hash_LU(T, &R.L, &R.U) != h0) { wk_fail(r, "factors-modified", "sp_%ctrsv modified L or U", T->letter); goto done; }
        xr worst = 0;
        for (int i = 0; i < n; i++) {
            xc s = DM(&b, i, 0); xr ax = 0, arow = 0;
            for (int j = 0; j < n; j++) { xc t = opT(&Tm, trans, i, j); s -= t * T->ld(xb, j); ax += cabsl(t) * cabsl(T->ld(xb, j)); arow += cabsl(t); }
            xr allow = 8.0L * n * T->eps * ax + 8.0L * n * T->sfmin * (1 + arow);
            if (cabsl(s) > allow || cabsl(s) != cabsl(s)) {
                wk_fail(r, (!lower && unit) ? "trsv-unit-upper-ignored" : "trsv-residual", "sp_%ctrsv(\"%s\",\"%s\",\"%s\"): |op(T)x - b|[%d] = %Lg exceeds 8 n eps |op(T)||x| = %Lg", T->letter, UPLO[iu], TRN[it], DIAG[id], i, cabsl(s), allow);
                goto done;
            }
            if (allow > 0 && cabsl(s) / allow > worst) worst = cabsl(s) / allow;
        }
        WK_RATIO(0, (double)worst);
    }
done:
    e1_free(&R);
}

static void run_gstrs(const vcase *c, vres *r)
{
    vcase c1 = *c; c1.nrhs = 1; c1.ldbx = 0;
    fs_run R; e1_gssv(&c1, &R); const vf_type *T = R.T; int n = c->n;
    if (R.info != 0) { r->status = 2; goto done; }
    if (expand_L(T, &R.L, &R.Ld) || expand_U(T, &R.L, &R.U, &R.Ud)) { wk_fail(r, "structure", "cannot expand factors"); goto done; }
    {
        /* the factored matrix F (A, or A' for row storage) and its op */
        dmat G, B, X; build_G(&R.Ld, &R.Ud, R.perm_r, R.perm_c, 0, &G);
        make_rhs(T, &R.F, c->trans, c->rhs, c->nrhs ? c->nrhs : 1, &B); B.n = c->nrhs;
        vf_dense D; dn_from_dense(&D, T, &B, n + c->ldbx, 7777.25); dn_to_dense(&D, &B);
        uint64_t h0 = hash_LU(T, &R.L, &R.U); SuperLUStat_t st; StatInit(&st); int info = -99;
        static const trans_t tr[] = { NOTRANS, TRANS, CONJ };
        T->gstrs(tr[c->trans], &R.L, &R.U, R.perm_c, R.perm_r, &D.M, &st, &info); StatFree(&st);
        WK_COUNT(K_GS); if (c->nrhs == 0) WK_COUNT(K_GS0); if (c->nrhs > 1) WK_COUNT(K_GSM); if (c->ldbx) WK_COUNT(K_GSP);
        r->nontrivial = n >= 2 && c->nrhs > 0; r->outcome = (uint64_t)(info + 10) * 31 + c->nrhs * 7 + c->trans;
        if (info != 0) { wk_fail(r, "gstrs-info", "x gstrs returned info=%d on a valid call (nrhs=%d ldb=%d)", info, c->nrhs, n + c->ldbx); dn_destroy(&D); goto done; }
        if (hash_LU(T, &R.L, &R.U) != h0) { wk_fail(r, "factors-modified", "xgstrs modified L or U"); dn_destroy(&D); goto done; }
        for (int j = 0; j < c->nrhs; j++) for (int i = n; i < D.ld; i++) if (creall(T->ld(D.val, i + (long)j * D.ld)) != 7777.25L) { wk_fail(r, "padding-overwritten", "xgstrs wrote padding row %d of column %d (ldb=%d)", i, j, D.ld); dn_destroy(&D); goto done; }
        dn_to_dense(&D, &X);
        double ratio = 0;
        if (o_residual(T, &R.F, c->trans, &G, &B, &X, 16.0, r, &ratio)) { dn_destroy(&D); goto done; }
        WK_RATIO(1, ratio);
        /* statistic: is column 0 of the multi-rhs solve bitwise equal to the single-rhs solve? */
        if (c->nrhs > 1) {
            dmat B1 = B; B1.n = 1; vf_dense D1; dn_from_dense(&D1, T, &B1, n, 0.0); SuperLUStat_t s2; StatInit(&s2);
            T->gstrs(tr[c->trans], &R.L, &R.U, R.perm_c, R.perm_r, &D1.M, &s2, &info); StatFree(&s2);
            if (!memcmp(D1.val, D.val, T->esz * n)) WK_COUNT(K_BEQ); else WK_COUNT(K_BNE);
            dn_destroy(&D1);
        }
        dn_destroy(&D);
    }
done:
    e1_free(&R);
}

static void run_gemv(const vcase *c, vres *r, int gemm)
{
    const vf_type *T = vf_T(c->type); int m = c->m, n = c->n; dmat A;
    make_values(T, m, n, c->pat, c->vals, &A);
    vf_sparse S; sp_from_dense(&S, T, &A, 0);
    int it = c->trans, trans = it % 3; double _Complex alpha = coef(T, c->k / 5), beta = coef(T, c->k % 5);
    int lenx = trans ? m : n, leny = trans ? n : m, ncols = gemm ? c->nrhs : 1, ldx = lenx + (gemm ? c->ldbx : 0), ldy = leny + (gemm ? c->ldbx * 2 : 0);
    /* strides as documented (sp_xgemv only): the free vector - x for op(A)=A, y for the transposed forms - is stored with increment STRIDE[aux2]; negative
     * increments follow the BLAS convention (element i at (len-1-i)*|inc|).  XP/YP map a logical index to its position; the gaps hold sentinels. */
    static const int STRIDE[] = { 1, 2, 3, -1, -2 }; int inc = gemm ? 1 : STRIDE[c->aux2 % 5], incx = trans ? 1 : inc, incy = trans ? inc : 1;
    if (incx != 1) ldx = (lenx - 1) * abs(incx) + 1; if (incy != 1) ldy = (leny - 1) * abs(incy) + 1;
    if (ldx < 1) ldx = 1; if (ldy < 1) ldy = 1;
#define XP(i) ((incx) > 0 ? (i) * (incx) : ((lenx) - 1 - (i)) * -(incx))
#define YP(i) ((incy) > 0 ? (i) * (incy) : ((leny) - 1 - (i)) * -(incy))
    if (inc != 1) WK_COUNT(K_MVSTR);
    int zpos = (int)((c->pat + (uint64_t)c->type + (uint64_t)c->k) % (uint64_t)(lenx + 1));     /* == lenx: no zero component */
    char *xb = malloc(T->esz * (size_t)ldx * ncols + 16), *yb = malloc(T->esz * (size_t)ldy * ncols + 16), *x0 = malloc(T->esz * (size_t)ldx * ncols + 16);
    dmat X, Y; memset(&X, 0, sizeof X); memset(&Y, 0, sizeof Y);
    int beta0 = (beta == 0);
    for (int cc = 0; cc < ncols; cc++) {
        for (int i = 0; i < ldx; i++) T->st(xb, i + (long)cc * ldx, 5555.5);
        for (int i = 0; i < lenx; i++) { xc v = (xr)((i * 2 + cc + 1) % 5 - 2) * 0.75L + (T->cplx ? (xr)(i % 2) * 0.5L * I : 0); if (i == zpos) v = 0;   /* an exact zero component of x, at every position over the cases (the kernels skip zero components) */ T->st(xb, XP(i) + (long)cc * ldx, (double _Complex)v); DM(&X, i, cc) = T->ld(xb, XP(i) + (long)cc * ldx); }
        for (int i = 0; i < ldy; i++) T->st(yb, i + (long)cc * ldy, 6666.5);
        for (int i = 0; i < leny; i++) {
            xc v = (xr)((i * 3 + cc) % 4 + 1) * ((i & 1) ? -1.5L : 0.5L);
            if (beta0) T->st(yb, YP(i) + (long)cc * ldy, (double _Complex)(NAN + (T->cplx ? NAN * I : 0)));   /* "Y need not be set on input" when beta is zero */
            else T->st(yb, YP(i) + (long)cc * ldy, (double _Complex)v);
            DM(&Y, i, cc) = beta0 ? 0 : T->ld(yb, YP(i) + (long)cc * ldy);
        }
    }
    memcpy(x0, xb, T->esz * (size_t)ldx * ncols);
    dmat A0; sp_to_dense(&S, &A0);
    int rc;
    if (gemm) { rc = T->sp_gemm((char *)TRN[it], (c->k & 1) ? "n" : "N", leny, ncols, lenx, alpha, &S.A, xb, ldx, beta, yb, ldy); WK_COUNT(K_MM); }
    else { rc = T->sp_gemv((char *)TRN[it], alpha, &S.A, xb, incx, beta, yb, incy); WK_COUNT(K_MV); }
    (void)rc;
    if (beta0) WK_COUNT(K_MVNAN); if (m != n) WK_COUNT(K_MVRECT);
    r->nontrivial = (S.nnz > 0); r->outcome = (uint64_t)c->k * 13 + it;
    {
        dmat A1; sp_to_dense(&S, &A1);
        if (memcmp(A0.a, A1.a, sizeof A0.a)) { wk_fail(r, "A-modified", "sp_%cgem%c modified A", T->letter, gemm ? 'm' : 'v'); goto done; }
        if (memcmp(x0, xb, T->esz * (size_t)ldx * ncols)) { wk_fail(r, "x-modified", "sp_%cgem%c modified its input vector/matrix", T->letter, gemm ? 'm' : 'v'); goto done; }
        xr worst = 0; int nz = (int)S.nnz;
        for (int cc = 0; cc < ncols; cc++) {
            { char isel[NMAX * 4 + 8]; memset(isel, 0, sizeof isel); for (int i = 0; i < leny; i++) isel[YP(i)] = 1;
              for (int i = 0; i < ldy; i++) if (!isel[i] && (creall(T->ld(yb, i + (long)cc * ldy)) != 6666.5L || cimagl(T->ld(yb, i + (long)cc * ldy)) != 0)) { wk_fail(r, "padding-overwritten", "position %d of output column %d is not an element of y (incy=%d) but was modified", i, cc, incy); goto done; } }
            for (int i = 0; i < leny; i++) {
                xc want = (xc)beta * DM(&Y, i, cc); xr mag = cabsl((xc)beta) * cabsl(DM(&Y, i, cc));
                for (int j = 0; j < lenx; j++) { xc a = trans ? DM(&A, j, i) : DM(&A, i, j); if (trans == 2) a = conjl(a); want += (xc)alpha * a * DM(&X, j, cc); mag += cabsl((xc)alpha) * cabsl(a) * cabsl(DM(&X, j, cc)); }
                xc got = T->ld(yb, YP(i) + (long)cc * ldy); xr err = cabsl(got - want), allow = 4.0L * (nz + 2) * T->eps * mag + 8 * T->sfmin;
                if (err > allow || err != err) {
                    wk_fail(r, (it >= 3) ? "gemv-lowercase-wrong" : (trans == 2 && T->cplx) ? "gemv-conj" : "gemv-result", "sp_%cgem%c(\"%s\", alpha=%g%+gi, beta=%g%+gi) on %dx%d incx=%d incy=%d: y[%d] = %Lg%+Lgi, expected %Lg%+Lgi", T->letter, gemm ? 'm' : 'v', TRN[it],
                            creal(alpha), cimag(alpha), creal(beta), cimag(beta), m, n, incx, incy, i, creall(got), cimagl(got), creall(want), cimagl(want));
                    goto done;
                }
                if (allow > 0 && err / allow > worst) worst = err / allow;
            }
        }
        WK_RATIO(2, (double)worst);
    }
done:
    free(xb); free(yb); free(x0); sp_destroy(&S);
}

static void run_C14(const vcase *c, vres *r)
{
    if (c->aux == 0 || c->aux == 1) { if (pat_struct_rank(c->n, c->n, c->pat) < c->n) { r->status = 2; return; } }
    if (c->aux == 0) run_trsv(c, r); else if (c->aux == 1) run_gstrs(c, r); else run_gemv(c, r, c->aux == 3);
}
/* ========================================================================== C19k
 * Utility / norm kernels on rectangular inputs under the allocation ledger: xlangs (1, inf, max norms), xCompRow_to_CompCol, xCopy_CompCol_Matrix,
 * xCopy_Dense_Matrix.  Fresh blocks are pre-filled (0xA5), so a result that depends on memory the routine did not initialise differs from the reference;
 * red zones catch a write past a block. */
static const int KM[] = { 1, 2, 3, 3, 1, 2, 4, 1, 2, 5, 2, 3 }, KN[] = { 1, 1, 1, 2, 2, 3, 2, 3, 4, 2, 5, 3 };
#define NKSH 12
static long koff[NKSH + 1]; static long ktotal(void) { long t = 0; for (int k = 0; k < NKSH; k++) { koff[k] = t; t += 1L << (KM[k] * KN[k]); } koff[NKSH] = t; return t; }
static void s19k(const int *d, vcase *c) { ktotal(); int k = 0; while (d[0] >= koff[k + 1]) k++; c->m = KM[k]; c->n = KN[k]; c->pat = (uint64_t)(d[0] - koff[k]); c->vals = (int[]){ 15, 7 }[d[1]]; c->type = d[2]; c->fillb = (int[]){ 0xA5, 0x00, 0xFF }[d[3]]; }
static const family F19K[] = { { "all patterns of 1x1,2x1,3x1,3x2,1x2,2x3,4x2,1x3,2x4,5x2,2x5,3x3 x vals{V15,V7} x type4 x heap fill{A5,00,FF}", 4, { 2 + 4 + 8 + 64 + 4 + 64 + 256 + 8 + 256 + 1024 + 1024 + 512, 2, 4, 3 }, s19k } };
static long sz_19k(int tier) { (void)tier; return fam_total(F19K, 1); }
static void dec_19k(int tier, long idx, vcase *c) { (void)tier; fam_decode(F19K, 1, idx, c); }
static void desc_19k(int tier, char *b, size_t cap) { (void)tier; fam_describe(F19K, 1, b, cap); }
static const char *const CNT19K[] = { "norm_calls", "transposes", "copies", "rectangular", "empty_rows_or_columns", NULL };
static void run_C19k(const vcase *c, vres *r)
{
    const vf_type *T = vf_T(c->type); int m = c->m, n = c->n; dmat A; make_values(T, m, n, c->pat, c->vals, &A);
    vf_sparse S; sp_from_dense(&S, T, &A, 0);
    r->nontrivial = (S.nnz > 0); if (m != n) wk->counters[3]++;
    /* norms */
    xr n1 = 0, ni = 0, nm = 0;
    for (int j = 0; j < n; j++) { xr t = 0; for (int i = 0; i < m; i++) if (DZ(&A, i, j)) { xr a = cabsl(DM(&A, i, j)); t += a; if (a > nm) nm = a; } if (t > n1) n1 = t; }
    for (int i = 0; i < m; i++) { xr t = 0; for (int j = 0; j < n; j++) if (DZ(&A, i, j)) t += cabsl(DM(&A, i, j)); if (t > ni) ni = t; }
    static const char *NRM[] = { "1", "O", "I", "M" }; const xr want[] = { n1, n1, ni, nm };     /* the spellings the drivers pass */
    for (int k = 0; k < 4; k++) {
        double g = T->langs((char *)NRM[k], &S.A); wk->counters[0]++;
        xr tol = 8.0L * (m + n) * (xr)T->eps * (want[k] > 0 ? want[k] : 1);
        if (!(fabsl((xr)g - want[k]) <= tol)) { wk_fail(r, "langs-value", "xlangs(\"%s\") on a %d x %d matrix returned %g, the norm is %Lg", NRM[k], m, n, g, want[k]); goto done; }
    }
    /* row-compressed -> column-compressed */
    {
        vf_sparse R; sp_from_dense(&R, T, &A, 1);            /* row storage of the same matrix: arrays = CSR of A */
        void *at = NULL; int_t *ri = NULL, *cp = NULL; wk->counters[1]++;
        T->CompRow_to_CompCol(m, n, R.nnz, R.nzval, R.ind, R.ptr, &at, &ri, &cp);
        int bad = 0;
        if (!cp || (R.nnz && (!ri || !at))) bad = 1;
        else {
            if (cp[0] != 0 || cp[n] != R.nnz) bad = 2;
            for (int j = 0; j < n && !bad; j++) { int_t k = cp[j]; for (int i = 0; i < m; i++) if (DZ(&A, i, j)) { if (k >= cp[j + 1] || ri[k] != i || T->ld(at, k) != DM(&A, i, j)) { bad = 3; break; } k++; } if (!bad && k != cp[j + 1]) bad = 4; }
        }
        if (at) SUPERLU_FREE(at); if (ri) SUPERLU_FREE(ri); if (cp) SUPERLU_FREE(cp);
        sp_destroy(&R);
        if (bad) { wk_fail(r, "comprow-to-compcol", "xCompRow_to_CompCol on a %d x %d matrix: result is not the column-compressed form of the input (code %d)", m, n, bad); goto done; }
    }
    /* copies */
    {
        vf_sparse B; sp_from_dense(&B, T, &A, 0); wk->counters[2]++;
        /* scribble over B, then copy A into it */
        for (int_t k = 0; k < B.nnz; k++) { T->st(B.nzval, k, -77.0); B.ind[k] = 0; } for (int j = 0; j <= n; j++) B.ptr[j] = 0;
        T->Copy_CompCol(&S.A, &B.A);
        int bad = (B.A.nrow != m || B.A.ncol != n || ((NCformat *)B.A.Store)->nnz != S.nnz || memcmp(B.ptr, S.ptr, sizeof(int_t) * (n + 1)) || memcmp(B.ind, S.ind, sizeof(int_t) * S.nnz) || memcmp(B.nzval, S.nzval, T->esz * S.nnz));
        sp_destroy(&B);
        if (bad) { wk_fail(r, "copy-compcol", "xCopy_CompCol_Matrix on a %d x %d matrix did not reproduce the source", m, n); goto done; }
        for (int ldx = m; ldx <= m + 2; ldx += 2) for (int ldy = m; ldy <= m + 3; ldy += 3) {
            char *X = malloc(T->esz * (size_t)ldx * n + 16), *Y = malloc(T->esz * (size_t)ldy * n + 16);
            for (int j = 0; j < n; j++) for (int i = 0; i < ldx; i++) T->st(X, i + (long)j * ldx, i < m ? (double _Complex)DM(&A, i, j) : 555.5);
            for (int j = 0; j < n; j++) for (int i = 0; i < ldy; i++) T->st(Y, i + (long)j * ldy, -9.25);
            T->Copy_Dense(m, n, X, ldx, Y, ldy);
            int b2 = 0; for (int j = 0; j < n && !b2; j++) for (int i = 0; i < ldy; i++) { xc y = T->ld(Y, i + (long)j * ldy); if (i < m ? y != T->ld(X, i + (long)j * ldx) : creall(y) != -9.25L) { b2 = 1; break; } }
            free(X); free(Y);
            if (b2) { wk_fail(r, "copy-dense", "xCopy_Dense_Matrix(%d x %d, ldx=%d, ldy=%d) copied wrongly or touched padding rows", m, n, ldx, ldy); goto done; }
        }
    }
    { int er = 0; for (int i = 0; i < m; i++) { int any = 0; for (int j = 0; j < n; j++) any |= DZ(&A, i, j); if (!any) er = 1; } if (er) wk->counters[4]++; }
    r->outcome = fnv(0, &n1, sizeof n1);
done:
    sp_destroy(&S);
}
static const char RULE19K[] = "every pattern of the listed shapes x value scheme x type x heap fill through xlangs (1, O, I, M), xCompRow_to_CompCol, xCopy_CompCol_Matrix and xCopy_Dense_Matrix; results compared with the definition, allocation ledger and red zones checked by the worker after every case; non-trivial = at least one stored entry";
static const char RULE14[] = "every (factor source, flag combination) / (matrix, trans spelling, alpha, beta) of the listed products is executed on the real kernels; solves are judged by their componentwise residual against the dense stored triangle, products against alpha*op(A)*x+beta*y in extended precision (y pre-filled with NaN when beta=0); non-trivial = order >= 2 / at least one stored entry";
const vf_check vf_checks[] = { { "C14", sz_14, dec_14, run_C14, CNT, RAT, RULE14, desc_14 }, { "C19k", sz_19k, dec_19k, run_C19k, CNT19K, RAT, RULE19K, desc_19k } };
const int vf_nchecks = 2;
int main(int argc, char **argv) { return wk_main(argc, argv); }
