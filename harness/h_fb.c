/* Engine E3: C20 (Fortran-callable bridge: factor once, solve many, free all; handles do not interfere).
 * One case = one configuration (type, pair of matrices, tuning); for it every valid word over the event alphabet
 * {factor(h,m), solve(h,nrhs,ldb), free(h)} on two handles and two matrices up to the depth bound that ends with
 * everything freed is executed on the real c_fortran_xgssv_ entry point. */
#include "e1.h"

static const char *const CNT[] = { "states", "transitions", "words", "factor_calls", "solve_calls", "free_calls", "two_handles_live_words", "solve_bitwise_equal_gssv", "solve_bitwise_diff_gssv", "max_word_len", NULL };
enum { K_STATES, K_TRANS, K_WORDS, K_FAC, K_SOL, K_FREE, K_TWO, K_BEQ, K_BNE, K_MAXL };
static const char *const RAT[] = { "residual_over_allowance", NULL };

#define NEV 14   /* 0-3 factor(h=ev/2, m=ev%2); 4-11 solve(h=(ev-4)/4, nrhs=1+((ev-4)/2)%2, ldb=n+2*((ev-4)%2)); 12-13 free(h) */
typedef struct { int n; int_t nnz; void *val; int_t *ri, *cp; void *val0; int_t *ri0, *cp0; dmat A; } fmat;
typedef struct { const vf_type *T; fmat M[2]; int64_t handle[2]; int live[2], which[2]; dmat ref[2][2][2]; int have_ref[2][2][2]; dmat G[2]; int haveG[2]; } fstate;

static void fmat_make(fmat *F, const vf_type *T, int n, uint64_t pat, int vals)
{
    make_values(T, n, n, pat, vals, &F->A); F->n = n; F->nnz = 0;
    for (int j = 0; j < n; j++) for (int i = 0; i < n; i++) F->nnz += DZ(&F->A, i, j);
    F->val = malloc(T->esz * F->nnz + 16); F->ri = malloc(sizeof(int_t) * F->nnz + 16); F->cp = malloc(sizeof(int_t) * (n + 1));
    int_t k = 0;
    for (int j = 0; j < n; j++) { F->cp[j] = k + 1; for (int i = 0; i < n; i++) if (DZ(&F->A, i, j)) { T->st(F->val, k, (double _Complex)DM(&F->A, i, j)); DM(&F->A, i, j) = T->ld(F->val, k); F->ri[k] = i + 1; k++; } }
    F->cp[n] = k + 1;
    F->val0 = malloc(T->esz * F->nnz + 16); F->ri0 = malloc(sizeof(int_t) * F->nnz + 16); F->cp0 = malloc(sizeof(int_t) * (n + 1));
    memcpy(F->val0, F->val, T->esz * F->nnz); memcpy(F->ri0, F->ri, sizeof(int_t) * F->nnz); memcpy(F->cp0, F->cp, sizeof(int_t) * (n + 1));
}
static void fmat_free(fmat *F) { free(F->val); free(F->ri); free(F->cp); free(F->val0); free(F->ri0); free(F->cp0); }

static int enabled(const fstate *S, int ev) { if (ev < 4) return !S->live[ev / 2]; if (ev < 12) return S->live[(ev - 4) / 4]; return S->live[ev - 12]; }

static int do_event(fstate *S, int ev, int judge, vres *r)
{
    const vf_type *T = S->T; int iopt, nrhs = 1, ldb, n; int_t info = -99;
    if (ev < 4) {
        int h = ev / 2, m = ev % 2; fmat *F = &S->M[m]; n = F->n; iopt = 1; ldb = n;      /* the handle is an output of a factor request: whatever the variable held before (garbage, a freed handle) must not matter */
        T->fortran_gssv(&iopt, &n, &F->nnz, &nrhs, F->val, F->ri, F->cp, NULL, &ldb, &S->handle[h], &info);
        WK_COUNT(K_FAC); WK_COUNT(K_TRANS);
        if (info != 0) return wk_fail(r, "factor-info", "factor request returned info=%ld for a nonsingular matrix", (long)info);
        S->live[h] = 1; S->which[h] = m;
        if (memcmp(F->val, F->val0, T->esz * F->nnz) || memcmp(F->ri, F->ri0, sizeof(int_t) * F->nnz) || memcmp(F->cp, F->cp0, sizeof(int_t) * (n + 1)))
            return wk_fail(r, "caller-arrays-modified", "the factor request modified the caller's 1-based values/rowind/colptr arrays");
        return 0;
    }
    if (ev < 12) {
        int h = (ev - 4) / 4, q = ((ev - 4) / 2) % 2, p = (ev - 4) % 2, m = S->which[h]; fmat *F = &S->M[m]; n = F->n; nrhs = 1 + q; ldb = n + 2 * p; iopt = 2;
        dmat B; make_rhs(T, &F->A, 0, 1 + m, nrhs, &B);
        char *b = malloc(T->esz * (size_t)ldb * nrhs + 16);
        for (int c = 0; c < nrhs; c++) for (int i = 0; i < ldb; i++) T->st(b, i + (long)c * ldb, i < n ? (double _Complex)DM(&B, i, c) : (double _Complex)4321.5);
        for (int c = 0; c < nrhs; c++) for (int i = 0; i < n; i++) DM(&B, i, c) = T->ld(b, i + (long)c * ldb);
        T->fortran_gssv(&iopt, &n, &F->nnz, &nrhs, F->val, F->ri, F->cp, b, &ldb, &S->handle[h], &info);
        WK_COUNT(K_SOL); WK_COUNT(K_TRANS);
        int bad = 0;
        if (info != 0) bad = wk_fail(r, "solve-info", "solve request returned info=%ld", (long)info);
        for (int c = 0; c < nrhs && !bad; c++) for (int i = n; i < ldb; i++) if (creall(T->ld(b, i + (long)c * ldb)) != 4321.5L) { bad = wk_fail(r, "padding-overwritten", "solve wrote padding row %d of column %d (ldb=%d)", i, c, ldb); break; }
        if (!bad && judge) {
            dmat X; memset(&X, 0, sizeof X); X.m = n; X.n = nrhs; for (int c = 0; c < nrhs; c++) for (int i = 0; i < n; i++) DM(&X, i, c) = T->ld(b, i + (long)c * ldb);
            /* reference: the same request on a fresh single-handle history; also the C simple driver on the same data */
            if (!S->have_ref[m][q][p]) {
                vcase c1; vcase_init(&c1); c1.type = T->id; c1.n = c1.m = n; c1.colperm = 3; c1.u = 1.0; c1.nrhs = nrhs; c1.ldbx = 0; c1.permid = -1;
                /* run xgssv on identical data */
                vf_sparse Sp; dmat A2 = F->A; sp_from_dense(&Sp, T, &A2, 0); vf_dense D; dn_from_dense(&D, T, &B, n, 0.0);
                superlu_options_t opt; set_default_options(&opt); opt.PrintStat = NO; SuperLUStat_t st; StatInit(&st); SuperMatrix L, U; int pc[NMAX], pr[NMAX]; int_t inf2 = -9;
                T->gssv(&opt, &Sp.A, pc, pr, &L, &U, &D.M, &st, &inf2);
                dmat Xg; dn_to_dense(&D, &Xg); S->ref[m][q][p] = Xg; S->have_ref[m][q][p] = 1;
                if (!S->haveG[m] && inf2 == 0) { dmat Ld, Ud; if (!expand_L(T, &L, &Ld) && !expand_U(T, &L, &U, &Ud)) { build_G(&Ld, &Ud, pr, pc, 0, &S->G[m]); S->haveG[m] = 1; } }
                if (inf2 >= 0 && inf2 <= n) { Destroy_SuperNode_Matrix(&L); Destroy_CompCol_Matrix(&U); }
                StatFree(&st); sp_destroy(&Sp); dn_destroy(&D);
            }
            double ratio = 0;
            if (S->haveG[m] && o_residual(T, &F->A, 0, &S->G[m], &B, &X, 16.0, r, &ratio)) bad = 1;
            else {
                WK_RATIO(0, ratio);
                /* "the same solution the C simple driver would return": same factorization path, so agreement to the forward-error scale; bitwise equality is a statistic */
                const dmat *Xg = &S->ref[m][q][p]; int beq = 1; xr worst = 0, scale = 0;
                for (int c = 0; c < nrhs; c++) for (int i = 0; i < n; i++) { if (DM(&X, i, c) != DM(Xg, i, c)) beq = 0; xr d = cabsl(DM(&X, i, c) - DM(Xg, i, c)); if (d > worst) worst = d; if (cabsl(DM(Xg, i, c)) > scale) scale = cabsl(DM(Xg, i, c)); }
                if (beq) WK_COUNT(K_BEQ); else WK_COUNT(K_BNE);
                if (worst > 1e4L * T->eps * (scale > 0 ? scale : 1)) bad = wk_fail(r, "differs-from-simple-driver", "solve through the handle differs from xgssv on the same data by %Lg (solution scale %Lg)", worst, scale);
            }
        }
        free(b);
        return bad;
    }
    {
        int h = ev - 12, m = S->which[h]; fmat *F = &S->M[m]; n = F->n; iopt = 3; ldb = n;
        T->fortran_gssv(&iopt, &n, &F->nnz, &nrhs, F->val, F->ri, F->cp, NULL, &ldb, &S->handle[h], &info);
        WK_COUNT(K_FREE); WK_COUNT(K_TRANS);
        S->live[h] = 0;
        return 0;
    }
}

#define MAXLEN 8
static int g_depth;
static long g_words;
static int run_word(const vcase *c, fstate *S0, const unsigned char *w, int len, vres *r)
{
    /* replay the word from scratch on fresh handles (matrices and references are shared) */
    S0->live[0] = S0->live[1] = 0;
    long live0 = vf_live_count(); int two = 0;
    for (int i = 0; i < len; i++) {
        if (do_event(S0, w[i], 1, r)) { char hs[160]; size_t o = 0; for (int k = 0; k <= i; k++) o += snprintf(hs + o, sizeof hs - o, "%s%d", k ? "," : "", w[k]); char m0[300]; snprintf(m0, sizeof m0, "%s", r->msg); snprintf(r->msg, sizeof r->msg, "word [%s] (events 0-3 factor(h,m), 4-11 solve(h,nrhs,ldb), 12-13 free(h)): %s", hs, m0); return 1; }
        if (S0->live[0] && S0->live[1]) two = 1;
    }
    if (two) WK_COUNT(K_TWO);
    if (vf_n_free_unknown) return wk_fail(r, "bad-free", "%s", vf_last_bad_free);
    vf_check_redzones(); if (vf_n_overrun) return wk_fail(r, "heap-overrun", "%s", vf_last_overrun);
    if (vf_live_count() != live0) {
        vf_block bl[16]; int nb = vf_live_list(bl, 16); char m[300]; size_t o = 0; m[0] = 0;
        for (int i = 0; i < nb && o + 60 < sizeof m; i++) { const char *sl = strrchr(bl[i].file, '/'); o += snprintf(m + o, sizeof m - o, " %s:%d(%s)", sl ? sl + 1 : bl[i].file, bl[i].line, bl[i].func); }
        char hs[160]; size_t q = 0; for (int k = 0; k < len; k++) q += snprintf(hs + q, sizeof hs - q, "%s%d", k ? "," : "", w[k]);
        wk_fail(r, "leak-after-free", "word [%s]: %ld block(s) still allocated after every handle was freed:%s", hs, vf_live_count() - live0, m);
        vf_release_all(); return 1;
    }
    return 0;
}
static int dfs(const vcase *c, fstate *S, unsigned char *w, int len, int l0, int l1, vres *r)
{
    /* l0,l1: abstract liveness after the prefix; complete words end with nothing live */
    if (len > 0 && !l0 && !l1) { g_words++; WK_COUNT(K_WORDS); if (len > wk->counters[K_MAXL]) wk->counters[K_MAXL] = len; if (run_word(c, S, w, len, r)) return 1; }
    if (len == g_depth) return 0;
    for (int ev = 0; ev < NEV; ev++) {
        int h = ev < 4 ? ev / 2 : ev < 12 ? (ev - 4) / 4 : ev - 12, lv = h ? l1 : l0;
        if (ev < 4 ? lv : !lv) continue;
        /* remaining events must allow freeing everything */
        int n0 = l0, n1 = l1; if (ev < 4) { if (h) n1 = 1; else n0 = 1; } else if (ev >= 12) { if (h) n1 = 0; else n0 = 0; }
        if (len + 1 + n0 + n1 > g_depth) continue;
        w[len] = (unsigned char)ev;
        if (dfs(c, S, w, len + 1, n0, n1, r)) return 1;
    }
    return 0;
}

static void run_C20(const vcase *c, vres *r)
{
    const vf_type *T = vf_T(c->type); fstate S; memset(&S, 0, sizeof S); S.T = T; S.handle[0] = 0x1111111111111111LL; S.handle[1] = 0x7fff5555aaaa0008LL;
    uint64_t p0 = c->pat, p1 = base_pattern(c->n, (c->aux + 3) % 9);
    if (pat_struct_rank(c->n, c->n, p0) < c->n || pat_struct_rank(c->n, c->n, p1) < c->n) { r->status = 2; return; }
    fmat_make(&S.M[0], T, c->n, p0, c->vals); fmat_make(&S.M[1], T, c->n, p1, c->vals == 2 ? 7 : 2);
    g_depth = c->k; g_words = 0;
    if (c->aux3 == 1) {   /* replay of one word encoded in lwork (4 bits per event, length in aux2) */
        unsigned char w[MAXLEN]; for (int i = 0; i < c->aux2; i++) w[i] = (unsigned char)((c->lwork >> (4 * i)) & 15);
        run_word(c, &S, w, c->aux2, r);
    } else {
        unsigned char w[MAXLEN + 1];
        dfs(c, &S, w, 0, 0, 0, r);
        WK_ADD(K_STATES, 4);     /* abstract typestates: {none, h0, h1, both} live */
    }
    r->nontrivial = 1; r->outcome = (uint64_t)g_words;
    fmat_free(&S.M[0]); fmat_free(&S.M[1]);
}

static void s20(const int *d, vcase *c) { c->n = c->m = 6; c->aux = d[0]; c->pat = dev1_pattern(6, base_pattern(6, d[0]), d[1]); c->vals = (int[]){ 2, 1 }[d[2]]; c->type = d[3]; set_tune(c, (int[]){ 0, 3, 9 }[d[4]]); c->k = d[5]; }
static void s20q(const int *d, vcase *c) { int e[6] = { d[0], d[1], d[2], d[3], d[4], 6 }; s20(e, c); }
static void s20t(const int *d, vcase *c) { int e[6] = { d[0], d[1], d[2], d[3], d[4], 7 }; s20(e, c); }
static const family F20Q[] = { { "BASE(6) x dev{0,1} x vals2 x type4 x tuning{default,(2,1,2..),relaxed}: all valid words up to depth 6 over 14 events on 2 handles x 2 matrices", 5, { 9, 2, 2, 4, 3 }, s20q } };
static const family F20T[] = { { "BASE(6) x dev{0..6} x vals2 x type4 x tuning3: all valid words up to depth 7", 5, { 9, 7, 2, 4, 3 }, s20t } };
static long sz_20(int tier) { return tier ? fam_total(F20T, 1) : fam_total(F20Q, 1); }
static void dec_20(int tier, long idx, vcase *c) { if (tier) fam_decode(F20T, 1, idx, c); else fam_decode(F20Q, 1, idx, c); }
static void desc_20(int tier, char *b, size_t cap) { if (tier) fam_describe(F20T, 1, b, cap); else fam_describe(F20Q, 1, b, cap); }
static const char RULE20[] = "one case = one configuration; all words over {factor(h,m), solve(h,nrhs in {1,2},ldb in {n,n+2}), free(h)} for two handles and two matrices up to the depth bound that respect 'solve/free only a live handle' and end with everything freed are executed on the real c_fortran_xgssv_; non-trivial = every configuration";
const vf_check vf_checks[] = { { "C20", sz_20, dec_20, run_C20, CNT, RAT, RULE20, desc_20 } };
const int vf_nchecks = 1;
int main(int argc, char **argv) { return wk_main(argc, argv); }
