/* Engine E1, kernel-level checks: C17 (large-diagonal permutation = max-product matching with unit scaling). */
#include "e1.h"

static const char *const CNT[] = { "struct_singular", "matched", "unique_optimum", "tied_optima", "zero_diagonal_inputs", "n_ge_4", NULL };
enum { K_SING, K_OK, K_UNIQ, K_TIED, K_ZD, K_N4 };
static const char *const RAT[] = { "logsum_gap_over_tol", "scaled_entry_excess_over_tol", NULL };

static const int V17[] = { 0, 1, 2, 3, 4, 5, 6, 7, 15, 18 };
static void s17a(const int *d, vcase *c) { all123(d[0], &c->n, &c->pat); c->m = c->n; c->vals = V17[d[1]]; c->type = d[2]; }
static void s17b(const int *d, vcase *c) { c->n = c->m = 4; c->pat = (uint64_t)d[0]; c->vals = (int[]){ 0, 1, 7, 15, 18, 4, 3, 5 }[d[1]]; c->type = d[2]; }
static void s17c(const int *d, vcase *c) { c->n = c->m = 5; c->pat = dev1_pattern(5, base_pattern(5, d[0]), d[1]); c->vals = V17[d[2]]; c->type = d[3]; }
static void s17d(const int *d, vcase *c) { c->n = c->m = 6; c->pat = dev1_pattern(6, base_pattern(6, d[0]), d[1]); c->vals = V17[d[2]]; c->type = d[3]; }
static void s17g(const int *d, vcase *c) { c->n = c->m = (int[]){ 8, 10, 12 }[d[0]]; c->gen = 2; c->pat = (uint64_t)(2000 + d[1] + 5000 * d[0]); c->vals = 17; c->type = d[2] ? TC : TD; }
#define FAM17G(np) { "orders 8, 10, 12: generated patterns x generic tie-free magnitudes (V17) x {d,c}: heap operations of MC64 on longer augmenting paths; optimality by the scaling certificate (brute force up to order 8)", 3, { 3, np, 2 }, s17g }
static const family F17Q[] = {
    { "ALL(1..3) x {V0-V7,V15,V18} x type4", 3, { N_ALL123, 10, 4 }, s17a },
    { "ALL(4) x {V0,V1,V7,V15,V18} x type4", 3, { N_ALL4, 5, 4 }, s17b },
    { "DEV_1(BASE(5)) x {V0-V7,V15,V18} x type4", 4, { 9, 26, 10, 4 }, s17c },
    { "DEV_1(BASE(6)) x {V0-V7,V15,V18} x type4", 4, { 9, 37, 10, 4 }, s17d },
    FAM17G(3000),
};
static const family F17T[] = {
    { "ALL(1..3) x {V0-V7,V15,V18} x type4", 3, { N_ALL123, 10, 4 }, s17a },
    { "ALL(4) x {V0,V1,V7,V15,V18,V4,V3,V5} x type4", 3, { N_ALL4, 8, 4 }, s17b },
    { "DEV_1(BASE(5)) x {V0-V7,V15,V18} x type4", 4, { 9, 26, 10, 4 }, s17c },
    { "DEV_1(BASE(6)) x {V0-V7,V15,V18} x type4", 4, { 9, 37, 10, 4 }, s17d },
    FAM17G(30000),
};
#define NF(F) ((int)(sizeof F / sizeof *F))
static long sz_17(int tier) { return tier ? fam_total(F17T, NF(F17T)) : fam_total(F17Q, NF(F17Q)); }
static void dec_17(int tier, long idx, vcase *c) { if (tier) fam_decode(F17T, NF(F17T), idx, c); else fam_decode(F17Q, NF(F17Q), idx, c); }
static void desc_17(int tier, char *b, size_t cap) { if (tier) fam_describe(F17T, NF(F17T), b, cap); else fam_describe(F17Q, NF(F17Q), b, cap); }

/* brute force over all perfect matchings: best sum of log|a| and number of matchings within tol of it */
static void best_matching(int n, xr lg[NMAX][NMAX], unsigned char nzm[NMAX][NMAX], int row, unsigned used, xr acc, xr *best, int *count_best, xr tol)
{
    if (row == n) { if (acc > *best + tol) { *best = acc; *count_best = 1; } else if (acc > *best - tol) (*count_best)++; return; }
    for (int j = 0; j < n; j++) if (!(used >> j & 1) && nzm[row][j]) best_matching(n, lg, nzm, row + 1, used | 1u << j, acc + lg[row][j], best, count_best, tol);
}

static void run_C17(const vcase *c, vres *r)
{
    const vf_type *T = vf_T(c->type); int n = c->n; dmat A; make_values(T, n, n, c->pat, c->vals, &A);
    vf_sparse S; sp_from_dense(&S, T, &A, 0);
    int srank = pat_struct_rank(n, n, c->pat);
    int zd = 0; for (int i = 0; i < n; i++) if (!DZ(&A, i, i)) zd = 1;
    if (zd) WK_COUNT(K_ZD); if (n >= 4) WK_COUNT(K_N4);
    int_t *cp0 = intMalloc(n + 1), *ri0 = intMalloc(S.nnz ? S.nnz : 1); void *v0 = malloc(T->esz * (S.nnz ? S.nnz : 1));
    memcpy(cp0, S.ptr, sizeof(int_t) * (n + 1)); memcpy(ri0, S.ind, sizeof(int_t) * S.nnz); memcpy(v0, S.nzval, T->esz * S.nnz);
    int perm[NMAX]; double u[NMAX], v[NMAX]; for (int i = 0; i < n; i++) { perm[i] = -7; u[i] = v[i] = 0; }
    int ret = T->ldperm(5, n, S.nnz, S.ptr, S.ind, S.nzval, perm, u, v);
    r->nontrivial = (n >= 2); r->outcome = fnv(0, perm, sizeof(int) * n) ^ (uint64_t)ret;
    if (memcmp(cp0, S.ptr, sizeof(int_t) * (n + 1)) || memcmp(ri0, S.ind, sizeof(int_t) * S.nnz)) { wk_fail(r, "index-arrays-modified", "xldperm returned with colptr/rowind changed (ret=%d)", ret); goto done; }
    if (memcmp(v0, S.nzval, T->esz * S.nnz)) { wk_fail(r, "values-modified", "xldperm modified nzval"); goto done; }
    if ((srank < n) != (ret != 0)) { wk_fail(r, srank < n ? "singular-not-reported" : "spurious-singular", "structural rank %d of %d but xldperm returned %d", srank, n, ret); goto done; }
    if (ret != 0) { WK_COUNT(K_SING); goto done; }
    WK_COUNT(K_OK);
    if (!is_perm(perm, n)) { wk_fail(r, "perm-not-bijection", "perm is not a permutation"); goto done; }
    {
        xr lg[NMAX][NMAX]; unsigned char nzm[NMAX][NMAX]; xr got = 0;
        for (int i = 0; i < n; i++) for (int j = 0; j < n; j++) { nzm[i][j] = DZ(&A, i, j) && xmag(T, DM(&A, i, j)) != 0; lg[i][j] = nzm[i][j] ? logl(xmag(T, DM(&A, i, j))) : 0; }
        for (int i = 0; i < n; i++) { if (!nzm[i][perm[i]]) { wk_fail(r, "zero-on-diagonal", "row %d is matched to column %d where A has no non-zero", i, perm[i]); goto done; } got += lg[i][perm[i]]; }
        xr best = -1e300L; int cb = 0; xr tol = 1e-9L;
        /* brute force over all matchings up to order 8; beyond that the scaling conditions checked below are a certificate of optimality (LP duality:
           u_i + v_j + log|a_ij| <= 0 everywhere with equality on the matching) */
        if (n <= 8) best_matching(n, lg, nzm, 0, 0, 0, &best, &cb, tol); else { best = got; cb = 1; }
        if (cb == 1) WK_COUNT(K_UNIQ); else WK_COUNT(K_TIED);
        xr gap = best - got, allow = 1e-9L * (1 + fabsl(best));
        if (gap > allow) { wk_fail(r, "not-max-product", "sum of log|diagonal| = %Lg but the best matching reaches %Lg (product ratio %Lg)", got, best, expl(gap)); goto done; }
        WK_RATIO(0, (double)(gap > 0 ? gap / allow : 0));
        xr worst = 0;
        for (int i = 0; i < n; i++) for (int j = 0; j < n; j++) if (nzm[i][j]) {
            xr stol = 64 * (xr)T->eps * (1 + fabsl((xr)u[i]) + fabsl((xr)v[j]));     /* u, v are returned in working precision; exp() amplifies their rounding by |u|+|v| */
            xr b = xmag(T, DM(&A, i, j)) * expl((xr)u[i] + (xr)v[j]);
            if (j == perm[i]) { if (fabsl(b - 1) > stol) { wk_fail(r, "scaled-diagonal-not-one", "matched entry (%d,%d) scales to %Lg, expected 1", i, j, b); goto done; } }
            else if (b > 1 + stol) { wk_fail(r, "scaled-offdiagonal-above-one", "entry (%d,%d) scales to %Lg > 1", i, j, b); goto done; }
            if ((b - 1) / stol > worst) worst = (b - 1) / stol;
        }
        WK_RATIO(1, (double)(worst > 0 ? worst : 0));
    }
done:
    if (r->status == 1) { char sg[96]; snprintf(sg, sizeof sg, "%.40s:n%d:pat=0x%llx:vals=%d", r->sig, n, (unsigned long long)c->pat, c->vals); snprintf(r->sig, sizeof r->sig, "%s", sg); }   /* findings are keyed to the specific input */
    if (r->status == 1 && wk_verbose) { dmat_print("A", &A); fprintf(stderr, "ret=%d perm:", ret); for (int i = 0; i < n; i++) fprintf(stderr, " %d", perm[i]); fprintf(stderr, "\nexp(u):"); for (int i = 0; i < n; i++) fprintf(stderr, " %g", exp(u[i])); fprintf(stderr, "\nexp(v):"); for (int i = 0; i < n; i++) fprintf(stderr, " %g", exp(v[i])); fprintf(stderr, "\n");
        for (int i = 0; i < n; i++) { for (int j = 0; j < n; j++) fprintf(stderr, " %10.4g", DZ(&A, i, j) ? (double)(xmag(T, DM(&A, i, j)) * expl((xr)u[i] + (xr)v[j])) : 0.0); fprintf(stderr, "\n"); } }
    SUPERLU_FREE(cp0); SUPERLU_FREE(ri0); free(v0); sp_destroy(&S);
}
static const char RULE17[] = "every pattern of the listed families x value scheme (ties, small integers, wide magnitude spreads, zero diagonals) x type through xldperm(job=5); the matching is compared with the brute-force optimum over all n! perfect matchings; non-trivial = n>=2";
const vf_check vf_checks[] = { { "C17", sz_17, dec_17, run_C17, CNT, RAT, RULE17, desc_17 } };
const int vf_nchecks = 1;
int main(int argc, char **argv) { return wk_main(argc, argv); }
