/* Engine E3, history explorer: C06 (refactor / re-solve histories through xgssvx).
 * One enumerated case = one configuration (pattern, type, tuning, ordering, Equil, refinement, storage model);
 * for it the reachable state graph of the real session object is explored breadth-first to a fixpoint
 * (or the depth cap): a state is the canonical hash of everything carried between calls, a transition is one
 * real driver call, and every transition is judged. */
#define _GNU_SOURCE
#include "xs.h"
#include <sys/mman.h>

static const char *const CNT[] = { "states", "transitions", "replayed_calls", "fixpoint_reached", "depth_cap_hit", "ev_DOFACT", "ev_SamePattern", "ev_SameRowPerm", "ev_FACTORED",
    "rowperm_reused", "rowperm_abandoned", "singular_transitions", "dofact_differential_checked", "samepattern_equals_dofact", "samepattern_differs_dofact", "expansions_during_reuse", "sum_of_max_depths", "workspace_configs", "ilu_transitions", "symmetric_mode_configs", "zero_threshold_configs", "row_storage_configs", "transitions_failing_with_recorded_finding", "etree_consistency_checked", NULL };
enum { C_STATES, C_TRANS, C_CALLS, C_FIX, C_CAP, C_EV0, C_EV1, C_EV2, C_EV3, C_REUSED, C_ABAND, C_SING, C_DIFF, C_SPEQ, C_SPNE, C_EXPR, C_MAXD, C_WS, C_ILU, C_SYMC, C_U0, C_NRC, C_KNOWNEDGE, C_ETREE };
static const char *const RAT[] = { "residual_over_allowance", "lu_identity_over_allowance", NULL };

#define NV 5
#define NEV 18          /* 0-4 DOFACT(v), 5-9 SamePattern(v), 10-14 SamePattern_SameRowPerm(v), 15-17 FACTORED solve with Trans N/T/C */
#define MAXD 8
#define MAXSTATES 4096

typedef struct { xs s; const vcase *c; dmat Aun; int cur_v; int ok; int last_fact; long fact_info; unsigned char *ws; dmat V[NV]; int have_v3; } sess;

static unsigned char *g_arena = NULL;
static unsigned char *arena(void) { if (!g_arena) { g_arena = mmap(NULL, 1 << 20, PROT_READ | PROT_WRITE, MAP_PRIVATE | MAP_ANONYMOUS, -1, 0); memset(g_arena, 0xA5, 1 << 20); } return g_arena; }

/* value relations: v0 base (scheme from the case), v1 tiny perturbation, v2 unrelated values (reused pivots fail the threshold),
   v3 = v0 with the first reused pivot made exactly zero, v4 = v0 with rows rescaled by 10^(+-6) */
static void build_values(sess *S)
{
    const vcase *c = S->c; const vf_type *T = vf_T(c->type); int n = c->n;
    make_values(T, n, n, c->pat, c->vals, &S->V[0]);
    S->V[1] = S->V[0]; S->V[4] = S->V[0];
    for (int i = 0; i < n; i++) for (int j = 0; j < n; j++) if (DZ(&S->V[0], i, j)) {
        DM(&S->V[1], i, j) = DM(&S->V[0], i, j) * (1 + 1e-6L * ((i * 3 + j * 5) % 7 - 3));
        DM(&S->V[4], i, j) = DM(&S->V[0], i, j) * powl(10.0L, 6 * ((i % 3) - 1));
    }
    make_values(T, n, n, c->pat, c->vals == 3 ? 2 : 3, &S->V[2]);
    S->V[3] = S->V[0]; S->have_v3 = 0;
}
static void set_values(sess *S, int v)
{
    /* overwrite the stored values of A (pattern unchanged) */
    const vf_type *T = S->s.T; vf_sparse *sp = &S->s.S;
    for (int j = 0; j < sp->n; j++) for (int_t k = sp->ptr[j]; k < sp->ptr[j + 1]; k++) { int i = (int)sp->ind[k]; T->st(sp->nzval, k, (double _Complex)(S->s.stor ? DM(&S->V[v], j, i) : DM(&S->V[v], i, j))); }
    sp_to_dense(sp, &S->Aun); S->cur_v = v;
}
static void sess_open(sess *S, const vcase *c)
{
    memset(S, 0, sizeof *S); S->c = c;
    const vf_type *T = vf_T(c->type);
    xs_init(&S->s, T, c->n, c->pat, c->vals, c->stor); S->s.ilu = (c->aux2 == 1);
    build_values(S);
    if (c->lworkmode == 1) { S->ws = arena(); S->s.work = S->ws; S->s.lwork = 1 << 20; }
    memset(&S->s.Glu, 0, sizeof S->s.Glu);
}
static void sess_close(sess *S) { xs_destroy(&S->s); }

static uint64_t sess_hash(const sess *S)
{
    const xs *s = &S->s; int n = s->n; uint64_t h = fnv(0, &S->ok, sizeof(int));
    if (!s->have_LU) return h;
    h = fnv(h, s->perm_c, sizeof(int) * n); h = fnv(h, s->perm_r, sizeof(int) * n); h = fnv(h, s->etree, sizeof(int) * n);
    h = fnv(h, s->equed, 1);
    char e = s->equed[0];
    if (e == 'R' || e == 'B') h = fnv(h, s->Rbuf, s->T->rsz * n);
    if (e == 'C' || e == 'B') h = fnv(h, s->Cbuf, s->T->rsz * n);
    h = fnv(h, s->S.nzval, s->T->esz * s->S.nnz);
    uint64_t lu = hash_LU(s->T, &s->L, &s->U); h = fnv(h, &lu, sizeof lu);
    long cap[3] = { (long)s->Glu.nzlmax, (long)s->Glu.nzumax, (long)s->Glu.nzlumax }; h = fnv(h, cap, sizeof cap);
    return h;
}

static int enabled(const sess *S, int ev)
{
    if (ev < 5) return 1;
    if (!S->s.have_LU || !S->ok) return 0;
    return 1;
}

/* apply one event; judge != 0: evaluate the oracles */
static int apply(sess *S, int ev, int judge, vres *r, uint64_t *dofact_ref)
{
    const vcase *c = S->c; xs *s = &S->s; const vf_type *T = s->T; int n = s->n;
    superlu_options_t opt; vcase cc = *c; dmat A_in, B, B_in, B_after;
    int kind = ev < 5 ? 0 : ev < 10 ? 1 : ev < 15 ? 2 : 3, v = ev < 15 ? ev % 5 : -1, trans = ev >= 15 ? ev - 15 : (c->trans);
    int rp_before[NMAX]; memcpy(rp_before, s->perm_r, sizeof(int) * n);
    if (kind != 3) {
        if (v == 3 && !S->have_v3) {
            /* v3: the value that was the first pivot of the DOFACT(v0) factorization becomes exactly zero.  Needs the pivot
               position; derive it once from a scratch factorization of v0 in this configuration. */
            sess T0; sess_open(&T0, c); vres r0; memset(&r0, 0, sizeof r0);
            if (!apply(&T0, 0, 0, &r0, NULL) && T0.ok) {
                int r0row = -1, c0 = -1;
                for (int i = 0; i < n; i++) { if (T0.s.perm_r[i] == 0) r0row = i; if (T0.s.perm_c[i] == 0) c0 = i; }
                if (r0row >= 0 && c0 >= 0 && DZ(&S->V[3], r0row, c0)) DM(&S->V[3], r0row, c0) = 0;
            }
            sess_close(&T0); S->have_v3 = 1;
        }
        set_values(S, v);
    }
    cc.trans = trans; cc.fact = kind; cc.equil = c->equil;
    if (s->ilu) { xs_ilu_options(&cc, 0, &opt); opt.Fact = (fact_t[]){ DOFACT, SamePattern, SamePattern_SameRowPerm, FACTORED }[kind]; opt.SymmetricMode = c->sym ? YES : NO; }
    else xs_options(&cc, &opt, s);
    xs_current_A(s, &A_in);
    make_rhs(T, &S->Aun, trans, (ev + c->rhs) % 5 == 2 ? 0 : (ev + c->rhs) % 5, 1, &B);
    xs_set_rhs(s, &B, 0, 0); dn_to_dense(&s->B, &B_in);
    WK_SET_FLAGS(ref_numerically_singular(&S->Aun) ? WK_FLAG_SINGULAR : 0);
    xs_call(s, &opt);
    WK_ADD(C_CALLS, 1);
    dn_to_dense(&s->B, &B_after);
    long info = s->info;
    if (wk_verbose) {
        fprintf(stderr, "--- event %d (kind %d, values v%d): info=%ld\n", ev, kind, v, info);
        dmat Ad; xs_current_A(s, &Ad); dmat_print("A", &Ad);
        fprintf(stderr, "perm_c:"); for (int i = 0; i < n; i++) fprintf(stderr, " %d", s->perm_c[i]);
        fprintf(stderr, "\nperm_r before:"); for (int i = 0; i < n; i++) fprintf(stderr, " %d", rp_before[i]);
        fprintf(stderr, "\nperm_r after: "); for (int i = 0; i < n; i++) fprintf(stderr, " %d", s->perm_r[i]); fprintf(stderr, "\n");
        if (s->have_LU) { const SCformat *Ls = s->L.Store; const NCformat *Us = s->U.Store;
            fprintf(stderr, "nsuper=%ld sup_to_col:", (long)Ls->nsuper); for (int q = 0; q <= Ls->nsuper + 1; q++) fprintf(stderr, " %d", Ls->sup_to_col[q]);
            fprintf(stderr, "\nrowind_colptr:"); for (int j = 0; j <= n; j++) fprintf(stderr, " %ld", (long)Ls->rowind_colptr[j]);
            fprintf(stderr, "\nrowind:"); for (long k = 0; k < Ls->rowind_colptr[n]; k++) fprintf(stderr, " %ld", (long)Ls->rowind[k]);
            fprintf(stderr, "\nU colptr:"); for (int j = 0; j <= n; j++) fprintf(stderr, " %ld", (long)Us->colptr[j]);
            fprintf(stderr, "\nU rowind:"); for (long k = 0; k < Us->colptr[n]; k++) fprintf(stderr, " %ld", (long)Us->rowind[k]); fprintf(stderr, "\n"); }
    }
    if (kind != 3) { S->ok = s->ilu ? (info >= 0 && info <= n + 1) : (info == 0); S->last_fact = kind; S->fact_info = info; }
    if (!judge) return 0;
    WK_COUNT(C_EV0 + kind);
    if (s->ilu) {
        /* incomplete-LU session: every call judged like a fresh xgsisx call (C15's judge): structure (stored counts included), non-zero finite diagonal,
           scaling identities, X = the solve defined by the returned factors, complete-LU identity when dropping is off and no pivot was replaced */
        ilu_stats st; WK_COUNT(C_ILU);
        if (kind != 3 && o_glu_storage(s, r)) return 1;
        if (o_ilu(s, trans, kind == 3 ? 2 : c->equil, &A_in, &B_in, &B_after, ilu_nodrop(c->k) && S->fact_info == 0, opt.ConditionNumber == YES, r, &st)) return 1;
        WK_RATIO(0, st.ratio_solve); if (st.exact) WK_RATIO(1, st.ratio_id);
        if (kind == 2) { if (!memcmp(rp_before, s->perm_r, sizeof(int) * n)) WK_COUNT(C_REUSED); else WK_COUNT(C_ABAND); }
        goto differential;
    }
    if (info < 0 || info > n) return wk_fail(r, "unexpected-info", "info=%ld", info);
    if (info > 0) {
        WK_COUNT(C_SING);
        if (kind == 3) return wk_fail(r, "factored-solve-info", "Fact=FACTORED returned info=%ld", info);
        /* with DiagPivotThresh = 0 tiny diagonal pivots are accepted and a column can cancel to zero numerically: no promise to judge */
        if (ref_numerically_singular(&S->Aun) == 0 && !(v == 3) && c->u > 0) return wk_fail(r, "spurious-singular", "info=%ld although the matrix of this call is comfortably nonsingular", info);
        return 0;         /* genuinely (near-)singular values: C04's business */
    }
    if (kind != 3 && o_glu_storage(s, r)) return 1;
    /* the column order and the elimination tree carried between calls stay consistent with each other: etree is the elimination tree of the matrix in
       the order perm_c (fresh after DOFACT, inputs of the reuse modes) */
    if (kind != 3 && is_perm(s->perm_c, n)) {
        dmat Fp; xs_current_A(s, &Fp); if (s->stor) { dmat Ft; transpose_dm(&Fp, &Ft); Fp = Ft; }
        int want[NMAX]; ref_etree(&Fp, s->perm_c, n, 0, want);   /* sp_preorder builds the column elimination tree in symmetric mode as well (ETREE_ATplusA is undefined) */
        for (int j = 0; j < n; j++) if (s->etree[j] != want[j]) {
            char pb[80] = "", eb[80] = "", wb[80] = ""; size_t o1 = 0, o2 = 0, o3 = 0;
            for (int q = 0; q < n; q++) { o1 += snprintf(pb + o1, sizeof pb - o1, "%d ", s->perm_c[q]); o2 += snprintf(eb + o2, sizeof eb - o2, "%d ", s->etree[q]); o3 += snprintf(wb + o3, sizeof wb - o3, "%d ", want[q]); }
            return wk_fail(r, "etree-inconsistent", "after the call etree[%d]=%d but the elimination tree of the matrix in the order perm_c has parent %d (perm_c = %s; etree = %s; expected %s)", j, s->etree[j], want[j], pb, eb, wb); }
        WK_COUNT(C_ETREE);
    }
    /* scaling identities (equed must stay what it was for FACTORED) */
    if (o_scaling(s, &A_in, &B_in, trans, kind == 3 ? 2 : c->equil, r)) return 1;
    /* factors: structure + identity + multiplier bound with respect to THIS call's (equilibrated) matrix */
    {
        dmat A1, Ld, Ud; verdict vd; memset(&vd, 0, sizeof vd); xs_current_A(s, &A1);
        if (s->stor) { dmat F; transpose_dm(&A1, &F); A1 = F; }        /* row storage: the transpose is what gets factored */
        if (check_LU_structure(T, &s->L, &s->U, n, n, 0, &vd)) return wk_fail(r, "structure", "%s", vd.msg);
        if (!is_perm(s->perm_r, n) || !is_perm(s->perm_c, n)) return wk_fail(r, "perm-not-bijection", "perm_r/perm_c not a bijection");
        if (expand_L(T, &s->L, &Ld) || expand_U(T, &s->L, &s->U, &Ud)) return wk_fail(r, "structure", "cannot expand factors");
        if (check_LU_identity(T, &A1, &Ld, &Ud, s->perm_r, s->perm_c, 16.0, &vd)) return wk_fail(r, "lu-identity", "%s", vd.msg);
        WK_RATIO(1, vd.ratio);
        double q = 0; long nd = 0;
        /* the diagonal-preference clause applies unless pivots are being reused */
        if (o_pivoting(T, &A1, &Ld, &Ud, s->perm_r, s->perm_c, c->u, kind < 2, r, &q, &nd)) return 1;
        if (kind == 2) { if (!memcmp(rp_before, s->perm_r, sizeof(int) * n)) WK_COUNT(C_REUSED); else WK_COUNT(C_ABAND); if (s->stat.expansions > 0) WK_COUNT(C_EXPR); }
    }
    {
        double ratio = 0; int quirk = 0; vres r2; memset(&r2, 0, sizeof r2);
        if (o_solution(s, trans, &B_after, &r2, &ratio, &quirk)) {
            if (!quirk && c->refine && !strcmp(r2.sig, "residual")) {
                double bmax = xs_real(s, s->berr, 0);
                if (bmax > 4.0 * n * T->eps) return wk_fail(r, "refinement-degraded", "after refinement (reported berr %g): %s", bmax, r2.msg);
            }
            *r = r2; r->status = 1; return 1;
        }
        WK_RATIO(0, ratio);
    }
differential:
    /* differential: DOFACT(v) after any history == DOFACT(v) from the initial state */
    if (kind == 0 && dofact_ref) {
        uint64_t h = hash_LU(T, &s->L, &s->U); h = fnv(h, s->perm_r, sizeof(int) * n); h = fnv(h, s->perm_c, sizeof(int) * n);
        if (dofact_ref[v] == 0) dofact_ref[v] = h ? h : 1;
        else { WK_COUNT(C_DIFF); if (dofact_ref[v] != (h ? h : 1)) return wk_fail(r, "dofact-history-dependent", "DOFACT of value set %d gives different factors after this history than from the initial state", v); }
    }
    if (kind == 1 && dofact_ref && dofact_ref[v]) {
        uint64_t h = hash_LU(T, &s->L, &s->U); h = fnv(h, s->perm_r, sizeof(int) * n); h = fnv(h, s->perm_c, sizeof(int) * n);
        if (dofact_ref[v] == (h ? h : 1)) WK_COUNT(C_SPEQ); else WK_COUNT(C_SPNE);
    }
    return 0;
}

static void hist_str(const unsigned char *h, int len, char *buf, size_t cap)
{
    static const char *kn[] = { "DOFACT", "SamePattern", "SameRowPerm", "FACTORED" }; size_t o = 0; buf[0] = 0;
    for (int i = 0; i < len; i++) { int ev = h[i]; if (ev < 15) o += snprintf(buf + o, cap - o, "%s%s(v%d)", i ? " " : "", kn[ev / 5], ev % 5); else o += snprintf(buf + o, cap - o, "%s%s(%c)", i ? " " : "", kn[3], "NTC"[ev - 15]); if (o + 24 > cap) break; }
}
static long hist_encode(const unsigned char *h, int len) { long e = len; for (int i = 0; i < len; i++) e |= (long)h[i] << (4 + 5 * i); return e; }
static int hist_decode(long e, unsigned char *h) { int len = (int)(e & 15); for (int i = 0; i < len; i++) h[i] = (unsigned char)((e >> (4 + 5 * i)) & 31); return len; }

typedef struct { uint64_t h; unsigned char hist[MAXD]; unsigned char len; } node;

static void run_C06(const vcase *c, vres *r)
{
    if (pat_struct_rank(c->n, c->n, c->pat) < c->n) { r->status = 2; return; }
    if (c->lworkmode == 1) WK_COUNT(C_WS);
    if (c->sym) WK_COUNT(C_SYMC); if (c->u == 0.0) WK_COUNT(C_U0); if (c->stor) WK_COUNT(C_NRC);
    uint64_t dofact_ref[NV] = {0};
    if (c->aux3 == 1) {
        /* replay of one recorded history: every transition judged */
        unsigned char h[MAXD]; int len = hist_decode(c->lwork, h); sess S; sess_open(&S, c);
        for (int i = 0; i < len; i++) { if (!enabled(&S, h[i])) { wk_fail(r, "replay-disabled-event", "event %d of the recorded history is not enabled", i); break; } if (apply(&S, h[i], 1, r, NULL)) { char hs[200]; hist_str(h, i + 1, hs, sizeof hs); char m0[300]; snprintf(m0, sizeof m0, "%s", r->msg); snprintf(r->msg, sizeof r->msg, "history [%s]: %s", hs, m0); break; } }
        sess_close(&S); r->nontrivial = 1; return;
    }
    static node st[MAXSTATES]; int ns = 0, head = 0, maxd = 0;
    st[ns].h = 0xdeadbeef; st[ns].len = 0; ns++;
    int capped = 0, have_known = 0; vres known_fail;
    while (head < ns) {
        node cur = st[head++];
        for (int ev = 0; ev < NEV; ev++) {
            sess S; sess_open(&S, c);
            vres rr; memset(&rr, 0, sizeof rr);
            for (int i = 0; i < cur.len; i++) apply(&S, cur.hist[i], 0, &rr, NULL);
            uint64_t hh = cur.len ? sess_hash(&S) : 0xdeadbeef;
            if (hh != cur.h) { sess_close(&S); wk_fail(r, "replay-divergence", "harness fault: replaying a recorded history produced a different state hash"); return; }
            if (!enabled(&S, ev)) { sess_close(&S); continue; }
            int bad = apply(&S, ev, 1, &rr, dofact_ref);
            WK_COUNT(C_TRANS);
            if (bad) {
                unsigned char h2[MAXD + 1]; memcpy(h2, cur.hist, cur.len); h2[cur.len] = (unsigned char)ev; char hs[220]; hist_str(h2, cur.len + 1, hs, sizeof hs);
                char m0[300]; snprintf(m0, sizeof m0, "%s", rr.msg);
                snprintf(rr.msg, sizeof rr.msg, "history [%s] (replay: aux3=1 lwork=%ld): %s", hs, hist_encode(h2, cur.len + 1), m0);
                sess_close(&S);
                /* a transition that fails with the signature of a recorded finding is remembered (and reported if nothing else fails) but does not end
                   the search: the state behind it is not expanded, everything else still is */
                if (wk_sig_known(rr.sig)) { if (!have_known) { known_fail = rr; have_known = 1; } WK_COUNT(C_KNOWNEDGE); continue; }
                *r = rr; return;
            }
            uint64_t h2 = sess_hash(&S); sess_close(&S);
            int known = 0; for (int k = 0; k < ns; k++) if (st[k].h == h2) { known = 1; break; }
            if (!known) {
                if (cur.len + 1 >= MAXD || ns >= MAXSTATES) { capped = 1; continue; }
                st[ns].h = h2; memcpy(st[ns].hist, cur.hist, cur.len); st[ns].hist[cur.len] = (unsigned char)ev; st[ns].len = cur.len + 1;
                if (st[ns].len > maxd) maxd = st[ns].len;
                ns++;
            }
        }
    }
    WK_ADD(C_STATES, ns); if (capped) WK_COUNT(C_CAP); else WK_COUNT(C_FIX);
    WK_ADD(C_MAXD, maxd);
    r->nontrivial = ns > 3; r->outcome = (uint64_t)ns * 1000003u + (uint64_t)maxd;
    if (have_known) { int nt = r->nontrivial; uint64_t oc = r->outcome; *r = known_fail; r->nontrivial = nt; r->outcome = oc; r->status = 1; }
}

/* configurations */
static const int TUNE_H[] = { 3, 10, 5, 9, 0, 4 };   /* (2,1,2..), (2,4,4..) relaxed supernodes of up to 4 columns, one relaxed supernode, defaults, (3,1,4..), (2,2,3..) */
static const int VALS_H[] = { 2, 1, 7 };
static const int ORD_H[8][2] = { { 3, 0 }, { 0, 0 }, { 2, 1 }, { 0, 1 }, { 1, 0 }, { 2, 0 }, { 3, 1 }, { 1, 1 } };   /* (ColPerm, SymmetricMode) */
static const int U_H[] = { 0, 1, 4 };                         /* DiagPivotThresh 1, 0.1, 0 */
static const int ILU_H[] = { -1, 21, 29, 23, 218 };          /* xgssvx | xgsisx with ILU_FillFactor 1 (the arrays start at nnz(A) and grow during the session): NODROP; BASIC tol .5; BASIC|AREA tol 1e-4; BASIC tol .5 SMILU_2 */
static void set06(const int *d, vcase *c)
{
    static const int BASES6[] = { 2, 7, 8, 1, 11, 12, 5, 3 };   /* arrow-last, grid, irregular, tridiagonal, interleaved chains (natural order not a postorder), the same joined by a dense column, bidiagonal+row, arrow-first */
    c->n = c->m = 6; c->pat = dev1_pattern(6, base_pattern(6, BASES6[d[0]]), d[1]); c->type = d[2]; set_tune(c, TUNE_H[d[3]]); c->colperm = ORD_H[d[4]][0]; c->sym = ORD_H[d[4]][1];
    c->equil = d[5]; c->refine = d[6]; c->lworkmode = d[7]; c->vals = VALS_H[d[8]]; c->u = U_LIST[U_H[d[9]]]; c->tune[6] = 1; c->fest = 1; c->rhs = 0; c->trans = 0; c->permid = -1;
    c->stor = 0; c->aux2 = 0;
}
static void set06i(const int *d, vcase *c)   /* incomplete-LU sessions: base dev type tune ord equil ws ilu-config */
{
    int e[10] = { d[0], d[1], d[2], d[3], d[4], d[5], 0, d[6], 0, 1 }; set06(e, c); if (d[3] == 1) set_tune(c, 0), c->tune[6] = 1;
    c->aux2 = 1; c->k = ILU_H[1 + d[7]];
}
static void set06r(const int *d, vcase *c)   /* row-storage sessions (the transpose is factored): base dev type ord equil refine u */
{
    int e[10] = { d[0], d[1], d[2], 0, d[3], d[4], d[5], 0, 0, d[6] }; set06(e, c); c->stor = 1;
}
static void set06o(const int *d, vcase *c)   /* vendor-BLAS build: reduced product */
{
    int e[10] = { d[0], d[1], d[2], d[3], d[4], d[5], d[6], d[7], 0, d[8] }; set06(e, c);
}
static const family F06Qm[] = {
    { "xgssvx: BASE6 x6 x dev{0..3} x type4 x tune4 x {COLAMD,NATURAL,MMD_AT+A sym,NATURAL sym} x Equil2 x refine2 x {library allocation fill 1, ample workspace} x vals{V2} x u{1,.1,0}: full reachability per configuration", 10, { 6, 4, 4, 4, 4, 2, 2, 2, 1, 3 }, set06 },
    { "xgsisx: BASE6 x6 x dev{0,1,2} x type4 x tune{(2,1,2..),default} x {COLAMD,NATURAL} x Equil2 x storage2 x {NODROP, BASIC tol .5, BASIC|AREA fill 1}", 8, { 6, 3, 4, 2, 2, 2, 2, 3 }, set06i },
    { "xgssvx on row storage: BASE6 x6 x dev{0,1,2} x type4 x {COLAMD,NATURAL} x Equil2 x refine2 x u{1,.1}", 7, { 6, 3, 4, 2, 2, 2, 2 }, set06r },
};
static const family F06Qo[] = {
    { "xgssvx: BASE6 x6 x dev{0,1,2} x type4 x tune{(2,1,2..),(3,1,4..)} x {COLAMD,NATURAL,MMD_AT+A sym,NATURAL sym} x Equil2 x refine2 x storage2 x vals{V2} x u{1,0}", 9, { 6, 3, 4, 2, 4, 2, 2, 2, 2 }, set06o },
    { "xgsisx: BASE6 x6 x dev{0,1} x type4 x tune{(2,1,2..),default} x {COLAMD,NATURAL} x Equil2 x storage2 x {NODROP, BASIC tol .5, BASIC|AREA fill 1}", 8, { 6, 2, 4, 2, 2, 2, 2, 3 }, set06i },
};
static const family F06T[] = {
    { "xgssvx: BASE6 x8 x dev{0..8} x type4 x tune6 x (colperm4 x sym2) x Equil2 x refine2 x storage2 x vals3 x u{1,.1,0}: full reachability per configuration", 10, { 8, 9, 4, 6, 8, 2, 2, 2, 3, 3 }, set06 },
    { "xgsisx: BASE6 x8 x dev{0..8} x type4 x tune{(2,1,2..),default} x (colperm4 x sym2) x Equil2 x storage2 x {NODROP, BASIC tol .5, BASIC|AREA fill 1, BASIC tol .5 SMILU_2}", 8, { 8, 9, 4, 2, 8, 2, 2, 4 }, set06i },
    { "xgssvx on row storage: BASE6 x8 x dev{0..8} x type4 x (colperm4 x sym2) x Equil2 x refine2 x u{1,.1,0}", 7, { 8, 9, 4, 8, 2, 2, 3 }, set06r },
};
static const family F06To[] = {
    { "xgssvx: BASE6 x6 x dev{0..4} x type4 x tune3 x {COLAMD,NATURAL,MMD_AT+A sym,NATURAL sym} x Equil2 x refine2 x storage2 x vals{V2,V1} x u{1,.1,0}", 10, { 6, 5, 4, 3, 4, 2, 2, 2, 2, 3 }, set06 },
    { "xgsisx: BASE6 x6 x dev{0..4} x type4 x tune2 x {COLAMD,NATURAL,MMD_AT+A sym,NATURAL sym} x Equil2 x storage2 x ilu4", 8, { 6, 5, 4, 2, 4, 2, 2, 4 }, set06i },
};
#define NF_(F) ((int)(sizeof F / sizeof *F))
static const family *pick06(int tier, int *nf)
{
    int ref = !strcmp(wk_variant, "ref");
    if (tier) { if (ref) { *nf = NF_(F06T); return F06T; } *nf = NF_(F06To); return F06To; }
    if (ref) { *nf = NF_(F06Qm); return F06Qm; } *nf = NF_(F06Qo); return F06Qo;
}
static long sz_06(int tier) { int nf; const family *f = pick06(tier, &nf); return fam_total(f, nf); }
static void dec_06(int tier, long idx, vcase *c) { int nf; const family *f = pick06(tier, &nf); fam_decode(f, nf, idx, c); }
static void desc_06(int tier, char *b, size_t cap) { int nf; const family *f = pick06(tier, &nf); fam_describe(f, nf, b, cap); }

static const char RULE06[] = "one case = one configuration; for it the state graph of the real xgssvx session (state = hash of A values, perm_c, perm_r, etree, equed, R, C, L, U, storage capacities) is explored breadth-first over the 18-event alphabet {DOFACT, SamePattern, SamePattern_SameRowPerm} x 5 value relations + FACTORED x {N,T,C} until no new state appears (depth cap 8); every transition executes the implementation and is judged; non-trivial = more than 3 reachable states";
const vf_check vf_checks[] = { { "C06", sz_06, dec_06, run_C06, CNT, RAT, RULE06, desc_06 } };
const int vf_nchecks = 1;
int main(int argc, char **argv) { return wk_main(argc, argv); }
