/* Engine E1, expert-driver checks: C05 (op(A)X=B, documented mutation), C12 (condition estimate and
 * pivot growth), C13 (backward error), and the expert-driver half of C04 (C04x). */
#include "xs.h"

static const char *const CNT[] = { "info_zero", "info_singular", "info_rcond_warning", "info_other", "equed_N", "equed_R", "equed_C", "equed_B",
    "trans_N", "trans_T", "trans_C", "row_storage", "refined", "refine_steps_ge1", "rcond_lower_clause_checked", "rcond_lower_clause_void", "growth_checked",
    "growth_zero_column", "berr_checked", "berr_borderline_skipped", "norefine_checked", "nr_conj_quirk", "singular_growth_checked", "singular_b_untouched", "refinement_degraded", NULL };
enum { C_INFO0, C_SING, C_WARN, C_OTHER, C_EQN, C_EQR, C_EQC, C_EQB, C_TN, C_TT, C_TC, C_NR, C_REF, C_STEPS, C_LOW, C_VOID, C_GROW, C_GZERO, C_BERR, C_BORD, C_NOREF, C_QUIRK, C_SGROW, C_SBUNT, C_DEGR };
static const char *const RAT[] = { "residual_over_allowance", "rcond_lower_slack_used", "berr_diff_over_allowance", "growth_diff_over_allowance", "residual_over_allowance_refined", NULL };

/* ------------------------------------------------------------------ families */
static const int VALS_X[] = { 1, 2, 3, 4, 5, 7, 15 };
static const int VALS_K[] = { 1, 2, 4, 7, 8, 9, 10, 11, 12, 15 };   /* C12/C13: includes ill-conditioned and graded */
static const int CP3[] = { 0, 3, 2 };
static const int TUNE_X[] = { 0, 3, 5 };
static int g_mode;   /* 5, 12, 13: which property's configuration is decoded */

static void common_flags(vcase *c, int refine_digit)
{
    if (g_mode == 5) { c->cond = 0; c->growth = 0; c->refine = refine_digit; }
    else if (g_mode == 12) { c->cond = 1; c->growth = 1; c->refine = refine_digit; }
    else { c->cond = 0; c->growth = 0; c->refine = refine_digit; }
}
/* A: ALL(1..3) x vals x colperm3 x u2 x tune2 x type4 x trans3 x equil2 x refine2 x stor2 x nrhs2 */
static void setA(const int *d, vcase *c)
{
    all123(d[0], &c->n, &c->pat); c->m = c->n;
    c->vals = (g_mode == 5 ? VALS_X[d[1]] : VALS_K[d[1]]); c->colperm = CP3[d[2]]; c->u = U_LIST[d[3]]; set_tune(c, TUNE_X[d[4]]); c->type = d[5];
    c->trans = d[6]; c->equil = d[7]; common_flags(c, d[8]); c->stor = d[9]; c->nrhs = 1 + 2 * d[10]; c->ldbx = d[10] * 2; c->rhs = (d[0] + d[1]) % 5; c->permid = -1;
    if (g_mode == 5) c->nrhs = 1 + d[10];
    if (g_mode == 12) c->nrhs = d[10] ? 0 : 1;      /* B with no columns: factor, growth and condition estimate only */
    if (g_mode == 13) c->cond = (d[0] ^ d[1]) & 1;   /* with ConditionNumber on, an ill-conditioned matrix returns info = n+1: X, FERR and BERR are computed all the same */
}
/* B: ALL(4) x vals2 x trans3 x equil2 x stor2 x type4 (refine, ordering, tuning derived from the pattern index) */
static void setB(const int *d, vcase *c)
{
    c->n = c->m = 4; c->pat = (uint64_t)d[0]; c->vals = (g_mode == 5 ? (d[1] ? 4 : 1) : (d[1] ? 8 : 7)); c->trans = d[2]; c->equil = d[3]; c->stor = d[4]; c->type = d[5];
    c->colperm = CP3[d[0] % 3]; c->u = U_LIST[(d[0] >> 2) & 1]; set_tune(c, TUNE_X[1 + ((d[0] >> 4) & 1)]); common_flags(c, (d[0] >> 6) & 1);
    c->nrhs = 1; c->rhs = d[0] % 5; c->permid = -1;
}
/* C: DEV_1(BASE(6)) x vals x colperm5 x trans3 x equil2 x refine2 x stor2 x tune3 x type4 */
static void setC(const int *d, vcase *c)
{
    c->n = c->m = 6; c->pat = dev1_pattern(6, base_pattern(6, d[0]), d[1]); c->vals = (g_mode == 5 ? VALS_X[d[2]] : VALS_K[d[2]]); c->colperm = d[3]; c->trans = d[4]; c->equil = d[5];
    common_flags(c, d[6]); c->stor = d[7]; set_tune(c, TUNE_X[d[8]]); c->type = d[9]; c->u = U_LIST[d[1] % 2]; c->nrhs = 1 + (d[1] % 3 == 0) * 2; c->ldbx = d[1] % 2; c->rhs = d[1] % 5; c->permid = -1;
    if (g_mode == 13) c->cond = (d[1] ^ d[2]) & 1;
}
/* D: orders 10, 12, 16 with generated patterns (structured bases incl. block and interleaved-chain kinds, pseudo-random ones): wide panels, several supernodes, real fill */
static void setD(const int *d, vcase *c)
{
    static const int NN[] = { 12, 10, 16 }, KB[] = { 1, 2, 3, 4, 5, 7, 8, 9, 10, 11, 12 };
    c->n = c->m = NN[d[0]];
    if (d[1] < 11) { c->gen = 1; c->pat = (uint64_t)KB[d[1]] | ((uint64_t)((d[1] * 13 + 5) % (c->n * c->n) + 1) << 8); } else { c->gen = 2; c->pat = (uint64_t)(900 + d[1] + 100 * d[0]); }
    c->vals = (g_mode == 5 ? (int[]){ 2, 15, 4, 1 }[d[2]] : (int[]){ 2, 15, 8, 1 }[d[2]]); c->colperm = (int[]){ 3, 2, 0 }[d[3]]; c->trans = d[4]; c->equil = d[5]; common_flags(c, d[6]); c->stor = d[7];
    set_tune(c, (int[]){ 0, 11, 5 }[d[8]]); c->type = d[9]; c->u = U_LIST[d[1] % 2]; c->nrhs = 1 + (d[1] % 3 == 0); c->ldbx = d[1] % 2; c->rhs = d[1] % 5; c->permid = -1;
}
/* E (C05): uniformly huge / tiny magnitudes - |a| far inside the floating-point range, |a|^2 outside it (equilibration does not touch a uniform scaling) */
static void setE(const int *d, vcase *c)
{
    c->n = c->m = 6; c->pat = dev1_pattern(6, base_pattern(6, d[0]), d[1]); c->vals = 19 + d[2]; c->colperm = 0; c->trans = d[3]; c->equil = d[4];
    common_flags(c, d[5]); c->stor = d[6]; set_tune(c, TUNE_X[d[7]]); c->type = d[8]; c->u = 1.0; c->nrhs = 1 + (d[1] % 2); c->ldbx = d[1] % 2; c->rhs = (d[1] % 2) * 3 + 1; c->permid = -1;
}
#define FAM_E { "DEV_1(BASE(6)) first 12 deviations x {V19 = V1*2^70|2^600, V20 = V1*2^-75|2^-600} x NATURAL x trans3 x equil2 x refine2 x stor2 x tune{0,3} x type4", 9, { 9, 12, 2, 3, 2, 2, 2, 2, 4 }, setE }
#define FAM_Dq { "order 12: 11 structured + 24 generated patterns x vals2 x {COLAMD,MMD_AT+A} x trans3 x equil2 x refine2 x stor2 x tune{default,(6,2,6..)} x type4", 10, { 1, 35, 2, 2, 3, 2, 2, 2, 2, 4 }, setD }
#define FAM_D { "orders 12,10,16: 11 structured + 60 generated patterns x vals4 x {COLAMD,MMD_AT+A,NATURAL} x trans3 x equil2 x refine2 x stor2 x tune{default,(6,2,6..),(3,1,4..)} x type4", 10, { 3, 71, 4, 3, 3, 2, 2, 2, 3, 4 }, setD }
/* S (C12, C04x): every pattern of ALL(1..3) (singular included) x exact value schemes: growth factor of singular factorizations */
static const int VALS_S[] = { 0, 1, 6 };
static void setS(const int *d, vcase *c)
{
    all123(d[0], &c->n, &c->pat); c->m = c->n; c->vals = VALS_S[d[1]]; c->colperm = CP3[d[2]]; c->equil = d[3]; c->type = d[4]; set_tune(c, TUNE_X[d[5]]); c->stor = d[6]; c->trans = d[7];
    c->cond = 1; c->growth = 1; c->refine = d[0] & 1; c->nrhs = 1; c->rhs = 1; c->u = 1.0; c->permid = -1; c->aux = 1;
}
static void setS4(const int *d, vcase *c)
{
    c->n = c->m = 4; c->pat = (uint64_t)d[0]; c->vals = VALS_S[d[1]]; c->colperm = CP3[d[0] % 3]; c->equil = d[2]; c->type = d[3]; set_tune(c, TUNE_X[d[4]]); c->stor = (d[0] >> 3) & 1; c->trans = (d[0] >> 5) % 3;
    c->cond = 1; c->growth = 1; c->refine = d[0] & 1; c->nrhs = 1; c->rhs = 1; c->u = 1.0; c->permid = -1; c->aux = 1;
}
/* C04x: the same, with PivotGrowth / ConditionNumber each on and off (the singular return path differs) */
static void setSx(const int *d, vcase *c) { setS(d, c); c->growth = d[8] & 1; c->cond = (d[8] >> 1) & 1; }
static void setS4x(const int *d, vcase *c) { setS4(d, c); c->growth = (d[0] >> 7) & 1; c->cond = (d[0] >> 9) & 1; }
#define FAM_A(nv) { "ALL(1..3) x vals x colperm{NAT,COLAMD,MMD_AT+A} x u{1,.1} x tune{0,3,5} x type4 x trans3 x equil2 x refine2 x stor2 x rhs-shape2", 11, { N_ALL123, nv, 3, 2, 3, 4, 3, 2, 2, 2, 2 }, setA }
#define FAM_Aq(nv) { "ALL(1..3) x vals x colperm{NAT,COLAMD} x u{1} x tune{0,3} x type4 x trans3 x equil2 x refine2 x stor2 x rhs-shape2", 11, { N_ALL123, nv, 2, 1, 2, 4, 3, 2, 2, 2, 2 }, setA }
#define FAM_B { "ALL(4) x vals2 x trans3 x equil2 x stor2 x type4", 6, { N_ALL4, 2, 3, 2, 2, 4 }, setB }
#define FAM_C(nv) { "DEV_1(BASE(6)) x vals x colperm5 x trans3 x equil2 x refine2 x stor2 x tune3 x type4", 10, { 9, 37, nv, 5, 3, 2, 2, 2, 3, 4 }, setC }
#define FAM_Cq(nv) { "DEV_1(BASE(6)) x vals x colperm{NAT,MMD_ATA,MMD_AT+A} x trans3 x equil2 x refine2 x stor2 x tune{0,3} x type4", 10, { 9, 37, nv, 3, 3, 2, 2, 2, 2, 4 }, setC }
#define FAM_S { "ALL(1..3) incl. singular x {V0,V1,V6} x colperm3 x equil2 x type4 x tune3 x stor2 x trans3", 8, { N_ALL123, 3, 3, 2, 4, 3, 2, 3 }, setS }
#define FAM_S4 { "ALL(4) incl. singular x {V0,V1,V6} x equil2 x type4 x tune3", 5, { N_ALL4, 3, 2, 4, 3 }, setS4 }
#define FAM_S4q { "ALL(4) incl. singular x {V0,V1,V6} x equil2 x type4 x tune{0}", 5, { N_ALL4, 3, 2, 4, 1 }, setS4 }
static const family FAM05[] = { FAM_A(7), FAM_B, FAM_C(7), FAM_D, FAM_E }, FAM05q[] = { FAM_Aq(7), FAM_B, FAM_Cq(7), FAM_Dq, FAM_E };
static const family FAM12[] = { FAM_A(10), FAM_B, FAM_C(10), FAM_S, FAM_S4, FAM_D }, FAM12q[] = { FAM_Aq(10), FAM_B, FAM_Cq(10), FAM_S, FAM_S4q, FAM_Dq };
static const family FAM13[] = { FAM_A(10), FAM_B, FAM_C(10), FAM_D }, FAM13q[] = { FAM_Aq(10), FAM_B, FAM_Cq(10), FAM_Dq };
#define FAM_SX { "ALL(1..3) incl. singular x {V0,V1,V6} x colperm3 x equil2 x type4 x tune3 x stor2 x trans3 x PivotGrowth2 x ConditionNumber2", 9, { N_ALL123, 3, 3, 2, 4, 3, 2, 3, 4 }, setSx }
#define FAM_S4X { "ALL(4) incl. singular x {V0,V1,V6} x equil2 x type4 x tune3 (PivotGrowth, ConditionNumber from the pattern index)", 5, { N_ALL4, 3, 2, 4, 3 }, setS4x }
#define FAM_S4Xq { "ALL(4) incl. singular x {V0,V1,V6} x equil2 x type4 x tune{0} (PivotGrowth, ConditionNumber from the pattern index)", 5, { N_ALL4, 3, 2, 4, 1 }, setS4x }
static const family FAM04X[] = { FAM_SX, FAM_S4X }, FAM04Xq[] = { FAM_SX, FAM_S4Xq };
#define NF(F) ((int)(sizeof F / sizeof *F))
/* other build variants (vendor BLAS, sanitizers): the ALL(1..3) and DEV_1 families only */
static const family FAM05v[] = { FAM_Aq(7), FAM_Cq(7), FAM_Dq, FAM_E }, FAM12v[] = { FAM_Aq(10), FAM_Cq(10), FAM_S, FAM_Dq }, FAM13v[] = { FAM_Aq(10), FAM_Cq(10), FAM_Dq }, FAM04Xv[] = { FAM_SX };
#define DEFSPACE(tag, F, Fq, Fv, mode) \
    static const family *pick_##tag(int tier, int *nf) { if (strcmp(wk_variant, "ref")) { *nf = NF(Fv); return Fv; } if (tier) { *nf = NF(F); return F; } *nf = NF(Fq); return Fq; } \
    static long sz_##tag(int tier) { int nf; const family *f = pick_##tag(tier, &nf); return fam_total(f, nf); } \
    static void dec_##tag(int tier, long idx, vcase *c) { int nf; const family *f = pick_##tag(tier, &nf); g_mode = mode; fam_decode(f, nf, idx, c); } \
    static void desc_##tag(int tier, char *b, size_t cap) { int nf; const family *f = pick_##tag(tier, &nf); fam_describe(f, nf, b, cap); }
DEFSPACE(05, FAM05, FAM05q, FAM05v, 5)
DEFSPACE(12, FAM12, FAM12q, FAM12v, 12)
DEFSPACE(13, FAM13, FAM13q, FAM13v, 13)
DEFSPACE(04x, FAM04X, FAM04Xq, FAM04Xv, 12)

/* ------------------------------------------------------------- shared runner */
typedef struct { xs s; dmat A_in, B_in, B_after; superlu_options_t opt; int flags; } xrun;

static void x_run(const vcase *c, xrun *X)
{
    const vf_type *T = vf_T(c->type);
    xs_init(&X->s, T, c->n, c->pat, c->vals, c->stor);
    X->A_in = X->s.A_orig;
    dmat B; make_rhs(T, &X->A_in, c->trans, c->rhs, c->nrhs, &B);
    xs_set_rhs(&X->s, &B, c->ldbx, c->ldbx ? 1 : 0);
    dn_to_dense(&X->s.B, &X->B_in);
    xs_options(c, &X->opt, &X->s);
    X->flags = (pat_struct_rank(c->n, c->n, c->pat) < c->n || ref_numerically_singular(&X->A_in)) ? WK_FLAG_SINGULAR : 0;
    WK_SET_FLAGS(X->flags);
    xs_call(&X->s, &X->opt);
    dn_to_dense(&X->s.B, &X->B_after);
    long info = X->s.info; int n = c->n;
    if (info == 0) WK_COUNT(C_INFO0); else if (info > 0 && info <= n) WK_COUNT(C_SING); else if (info == n + 1) WK_COUNT(C_WARN); else WK_COUNT(C_OTHER);
    if (info == 0 || info == n + 1) { char e = X->s.equed[0]; WK_COUNT(e == 'N' ? C_EQN : e == 'R' ? C_EQR : e == 'C' ? C_EQC : C_EQB); }
    WK_COUNT(C_TN + c->trans); if (c->stor) WK_COUNT(C_NR); if (c->refine) WK_COUNT(C_REF);
}
static uint64_t x_outcome(const vcase *c, const xrun *X)
{
    uint64_t h = fnv(0, &X->s.info, sizeof X->s.info);
    h = fnv(h, X->s.equed, 1); h = fnv(h, X->s.perm_c, sizeof(int) * c->n);
    if (X->s.info == 0 || X->s.info == c->n + 1) { h = fnv(h, X->s.perm_r, sizeof(int) * c->n); int rs = X->s.stat.RefineSteps; h = fnv(h, &rs, sizeof rs); }
    return h;
}
static int premise_nonsingular(const vcase *c, vres *r)
{
    if (pat_struct_rank(c->n, c->n, c->pat) < c->n) { r->status = 2; return 0; }
    return 1;
}

/* ---------------------------------------------------------------------- C05 */
static void run_C05(const vcase *c, vres *r)
{
    if (!premise_nonsingular(c, r)) return;
    xrun X; x_run(c, &X); r->outcome = x_outcome(c, &X);
    int n = c->n; long info = X.s.info; const vf_type *T = X.s.T;
    if (info >= 1 && info <= n) { r->status = 2; goto done; }       /* numerically singular: C04's business */
    if (info != 0) { wk_fail(r, "unexpected-info", "info=%ld from the expert driver (ConditionNumber=NO, valid call, n=%d)", info, n); goto done; }
    r->nontrivial = (n >= 2 && X.s.S.nnz > n);
    if (o_scaling(&X.s, &X.A_in, &X.B_in, c->trans, c->equil, r)) goto done;
    {
        double ratio = 0; int quirk = 0;
        if (o_solution(&X.s, c->trans, &X.B_after, r, &ratio, &quirk)) {
            if (quirk) WK_COUNT(C_QUIRK);
            else if (c->refine && !strcmp(r->sig, "residual")) {
                /* did refinement itself degrade a solution that met the bound?  (the library then reports a large BERR) */
                double bmax = 0; for (int j = 0; j < c->nrhs; j++) if (xs_real(&X.s, X.s.berr, j) > bmax) bmax = xs_real(&X.s, X.s.berr, j);
                if (bmax > 4.0 * n * T->eps) {
                    vf_dense Y; dmat Bc = X.B_after; dn_from_dense(&Y, T, &Bc, n, 0.0);
                    SuperLUStat_t st; StatInit(&st); int inf2 = 0;
                    trans_t trant = (c->stor == 0) ? (c->trans == 0 ? NOTRANS : c->trans == 1 ? TRANS : CONJ) : (c->trans == 0 ? TRANS : NOTRANS);
                    T->gstrs(trant, &X.s.L, &X.s.U, X.s.perm_c, X.s.perm_r, &Y.M, &st, &inf2); StatFree(&st);
                    /* judge the unrefined solve: put it (re-scaled) where o_solution reads X */
                    char e = X.s.equed[0]; int rowequ = (e == 'R' || e == 'B'), colequ = (e == 'C' || e == 'B'); int ne = (c->trans == 0); if (c->stor == 1) ne = !ne;
                    for (int j = 0; j < c->nrhs; j++) for (int i = 0; i < n; i++) {
                        xc y = T->ld(Y.val, i + (long)j * Y.ld); xr f = (ne && colequ) ? T->rld(X.s.Cbuf, i) : (!ne && rowequ) ? T->rld(X.s.Rbuf, i) : 1;
                        T->st(X.s.X.val, i + (long)j * X.s.X.ld, (double _Complex)(y * f));
                    }
                    dn_destroy(&Y);
                    vres r2; memset(&r2, 0, sizeof r2); double q2; int qk;
                    int rc2 = o_solution(&X.s, c->trans, &X.B_after, &r2, &q2, &qk);
                    if (rc2 && qk) { WK_COUNT(C_QUIRK); WK_COUNT(C_DEGR); wk_fail(r, "nr-conj-solves-transpose", "%s [and refinement degraded the iterate: reported berr %g]", r2.msg, bmax); }
                    else if (!rc2) { char m0[300]; snprintf(m0, sizeof m0, "%s", r->msg); WK_COUNT(C_DEGR); wk_fail(r, "refinement-degraded", "refinement made X worse than the unrefined solve, which meets the bound (reported berr %g): %s", bmax, m0); }
                }
            }
            goto done;
        }
        WK_RATIO(c->refine ? 4 : 0, ratio);
    }
done:
    if (r->status == 1 && wk_verbose) {
        dmat A1, Xd; xs_current_A(&X.s, &A1); dn_to_dense(&X.s.X, &Xd);
        fprintf(stderr, "info=%ld equed=%c refine_steps=%d\n", X.s.info, X.s.equed[0], X.s.stat.RefineSteps);
        dmat_print("A_in", &X.A_in); dmat_print("A_after", &A1); dmat_print("B_in", &X.B_in); dmat_print("B_after", &X.B_after); dmat_print("X", &Xd);
        for (int j = 0; j < c->nrhs; j++) fprintf(stderr, "ferr[%d]=%g berr[%d]=%g\n", j, xs_real(&X.s, X.s.ferr, j), j, xs_real(&X.s, X.s.berr, j));
        fprintf(stderr, "perm_c:"); for (int i = 0; i < n; i++) fprintf(stderr, " %d", X.s.perm_c[i]); fprintf(stderr, " perm_r:"); for (int i = 0; i < n; i++) fprintf(stderr, " %d", X.s.perm_r[i]); fprintf(stderr, "\n");
    }
    xs_destroy(&X.s);
}

/* ---------------------------------------------------------------------- C12 */
static int growth_ref(const xs *s, const dmat *F, int ncols, xr *lo, xr *hi, int *zero_cols, vres *r)
{
    /* min_j max|F_j| / max|U(0:j,j)| from the stored factors (U's compressed column + the leading rows of the supernodal block);
       columns with max|U_j| = 0 are skipped (hi) or counted as 1 (lo) */
    const vf_type *T = s->T; const SCformat *Ls = s->L.Store; const NCformat *Us = s->U.Store; int n = s->n, ipc[NMAX];
    for (int j = 0; j < n; j++) ipc[s->perm_c[j]] = j;
    xr big = 1.0L / (xr)T->sfmin; *lo = big; *hi = big; *zero_cols = 0;
    for (int j = 0; j < ncols; j++) {
        int sn = Ls->col_to_sup[j]; if (sn < 0 || sn > Ls->nsuper) return wk_fail(r, "structure", "col_to_sup[%d]=%d", j, sn);
        int f = Ls->sup_to_col[sn]; if (f < 0 || f > j) return wk_fail(r, "structure", "sup_to_col[%d]=%d for column %d", sn, f, j);
        xr maxu = 0, maxa = 0;
        for (long k = (long)Us->colptr[j]; k < (long)Us->colptr[j + 1]; k++) { xr a = xmag(T, T->ld(Us->nzval, k)); if (a > maxu) maxu = a; }
        for (long k = 0; k <= j - f; k++) { xr a = xmag(T, T->ld(Ls->nzval, (long)Ls->nzval_colptr[j] + k)); if (a > maxu) maxu = a; }
        for (int i = 0; i < n; i++) { xr a = xmag(T, DM(F, i, ipc[j])); if (a > maxa) maxa = a; }
        if (maxu == 0) { (*zero_cols)++; if (1 < *lo) *lo = 1; continue; }
        xr q = maxa / maxu; if (q < *lo) *lo = q; if (q < *hi) *hi = q;
    }
    return 0;
}
static int close_rel(xr a, xr b, xr tol) { xr d = fabsl(a - b), m = fabsl(a) > fabsl(b) ? fabsl(a) : fabsl(b); return d <= tol * m || (a == b); }

static void run_C12(const vcase *c, vres *r)
{
    int n = c->n; const vf_type *T = vf_T(c->type);
    if (!c->aux && !premise_nonsingular(c, r)) return;
    xrun X; x_run(c, &X); r->outcome = x_outcome(c, &X);
    long info = X.s.info;
    dmat A1, F; xs_current_A(&X.s, &A1); if (c->stor == 0) F = A1; else transpose_dm(&A1, &F);
    if (info >= 1 && info <= n) {
        /* growth factor over the leading `info` columns of a singular factorization */
        xr lo, hi; int zc; r->nontrivial = 1;
        if (growth_ref(&X.s, &F, (int)info, &lo, &hi, &zc, r)) goto done;
        xr g = T->rld(X.s.rpg, 0);
        int degenerate = 0;
        { const SCformat *Ls = X.s.L.Store; for (long k = 0; k <= Ls->nsuper; k++) { int f = Ls->sup_to_col[k], e2 = Ls->sup_to_col[k + 1]; if (f >= info) break; if ((long)Ls->rowind_colptr[f + 1] - (long)Ls->rowind_colptr[f] < e2 - f) degenerate = 1; } }
        if (!(close_rel(g, lo, 4 * T->eps) || close_rel(g, hi, 4 * T->eps))) { wk_fail(r, degenerate ? "growth-singular-degenerate-structure" : "growth-singular", "info=%ld: recip_pivot_growth=%Lg, recomputed over the leading %ld columns: %Lg (zero columns as 1) / %Lg (skipped)", info, g, info, lo, hi); goto done; }
        WK_COUNT(C_SGROW);
        goto done;
    }
    if (info != 0 && info != n + 1) { wk_fail(r, "unexpected-info", "info=%ld from the expert driver (n=%d)", info, n); goto done; }
    r->nontrivial = (n >= 2);
    {
        /* growth */
        xr lo, hi; int zc; if (growth_ref(&X.s, &F, n, &lo, &hi, &zc, r)) goto done;
        xr g = T->rld(X.s.rpg, 0);
        if (!(close_rel(g, lo, 4 * T->eps) || close_rel(g, hi, 4 * T->eps))) { wk_fail(r, "growth", "recip_pivot_growth=%Lg but min_j max|A_j|/max|U_j| recomputed from the factors = %Lg", g, lo); goto done; }
        WK_COUNT(C_GROW); if (zc) WK_COUNT(C_GZERO);
        WK_RATIO(3, (double)(fabsl(g - lo) / (4 * T->eps * (fabsl(lo) > 0 ? fabsl(lo) : 1))));
        /* rcond */
        xr rc = T->rld(X.s.rcond, 0);
        if (!(rc >= 0) || !isfinite((double)rc)) { wk_fail(r, "rcond-range", "rcond=%Lg", rc); goto done; }
        int warn = (info == n + 1);
        if (warn != (rc < (xr)T->eps)) { wk_fail(r, "rcond-warning", "info=%ld but rcond=%Lg, eps=%g: the warning must be raised exactly when rcond < eps", info, rc, T->eps); goto done; }
        int notran_eff = (c->trans == 0); if (c->stor == 1) notran_eff = !notran_eff;
        dmat Ld, Ud, M, Minv, LUabs;
        if (expand_L(T, &X.s.L, &Ld) || expand_U(T, &X.s.L, &X.s.U, &Ud)) { wk_fail(r, "structure", "cannot expand factors"); goto done; }
        memset(&M, 0, sizeof M); memset(&LUabs, 0, sizeof LUabs); M.m = M.n = LUabs.m = LUabs.n = n;
        for (int i = 0; i < n; i++) for (int j = 0; j < n; j++) { xc sacc = 0; xr a = 0; for (int k = 0; k <= i && k <= j; k++) { sacc += DM(&Ld, i, k) * DM(&Ud, k, j); a += cabsl(DM(&Ld, i, k)) * cabsl(DM(&Ud, k, j)); } DM(&M, i, j) = sacc; DM(&LUabs, i, j) = a; }
        xr normF = dense_norm(&F, !notran_eff), normLU = dense_norm(&LUabs, !notran_eff);
        xr upper = 1 + 16.0L * n * T->eps * (1 + (normF > 0 ? normLU / normF : 0));
        if (rc > upper) { wk_fail(r, "rcond-above-one", "rcond=%Lg exceeds 1 (allowance %Lg)", rc, upper); goto done; }
        if (!dense_inverse(n, &M, &Minv)) {
            xr ninv = dense_norm(&Minv, !notran_eff), kappa = normF * ninv;
            xr theta = 4.0L * n * T->eps * ninv * normLU;
            if (theta < 0.5L && kappa > 0 && isfinite((double)kappa)) {
                xr lower = (1 - theta - 8.0L * n * T->eps) / kappa;
                WK_COUNT(C_LOW);
                if (rc < lower && wk_verbose) { dmat Fi; dense_inverse(n, &F, &Fi); fprintf(stderr, "norm1(F)=%Lg normI(F)=%Lg norm1(Minv)=%Lg normI(Minv)=%Lg norm1(Finv)=%Lg normI(Finv)=%Lg rcond=%Lg anorm_lib1=%g anorm_libI=%g\n", dense_norm(&F, 0), dense_norm(&F, 1), dense_norm(&Minv, 0), dense_norm(&Minv, 1), dense_norm(&Fi, 0), dense_norm(&Fi, 1), rc, T->langs("1", X.s.stor == 0 ? &X.s.S.A : &X.s.S.A), T->langs("I", &X.s.S.A)); dmat_print("F", &F); dmat_print("Minv", &Minv);
                    char rb[8]; SuperLUStat_t st; StatInit(&st); int i2; T->gscon("1", &X.s.L, &X.s.U, 1.0, rb, &st, &i2); fprintf(stderr, "est1=%Lg ", 1 / T->rld(rb, 0)); T->gscon("I", &X.s.L, &X.s.U, 1.0, rb, &st, &i2); fprintf(stderr, "estI=%Lg\n", 1 / T->rld(rb, 0)); StatFree(&st);
                    for (int k = 0; k < n; k++) { char xb[NMAX * 16]; for (int i = 0; i < n; i++) T->st(xb, i, i == k ? 1.0 : 0.0); SuperLUStat_t s2; StatInit(&s2); T->sp_trsv("L", "N", "U", &X.s.L, &X.s.U, xb, &s2, &i2); T->sp_trsv("U", "N", "N", &X.s.L, &X.s.U, xb, &s2, &i2); StatFree(&s2); xr sm = 0; for (int i = 0; i < n; i++) sm += cabsl(T->ld(xb, i)); fprintf(stderr, "col %d: |Minv e_k|_1 via sp_trsv = %Lg ; M*y =", k, sm);
                        for (int i = 0; i < n; i++) { xc a = 0; for (int j = 0; j < n; j++) a += DM(&M, i, j) * T->ld(xb, j); fprintf(stderr, " %.3Lg%+.3Lgi", creall(a), cimagl(a)); } fprintf(stderr, "\n");
                        for (int i = 0; i < n; i++) T->st(xb, i, i == k ? 1.0 : 0.0); SuperLUStat_t s3; StatInit(&s3); T->sp_trsv("L", "N", "U", &X.s.L, &X.s.U, xb, &s3, &i2); StatFree(&s3);
                        fprintf(stderr, "   L*z ="); for (int i = 0; i < n; i++) { xc a = 0; for (int j = 0; j < n; j++) a += DM(&Ld, i, j) * T->ld(xb, j); fprintf(stderr, " %.3Lg%+.3Lgi", creall(a), cimagl(a)); } fprintf(stderr, "\n"); }
                    dmat_print("Ld", &Ld); dmat_print("Ud", &Ud); }
                /* the documented aliases of the norm argument give the same estimate */
                { char r1[8], rO[8]; SuperLUStat_t st2; StatInit(&st2); int i2 = 0, i3 = 0; T->gscon("1", &X.s.L, &X.s.U, 1.0, r1, &st2, &i2); T->gscon("O", &X.s.L, &X.s.U, 1.0, rO, &st2, &i3); StatFree(&st2);
                  if (i2 || i3 || memcmp(r1, rO, T->rsz)) { wk_fail(r, "gscon-alias", "xgscon(\"O\") = %Lg differs from xgscon(\"1\") = %Lg on the same factors (info %d / %d)", T->rld(rO, 0), T->rld(r1, 0), i3, i2); goto done; } }
                if (rc < lower) { wk_fail(r, "rcond-below-true", "rcond=%Lg is below the true reciprocal condition number 1/kappa=%Lg (norm %s, allowance factor %Lg)", rc, 1 / kappa, notran_eff ? "1" : "inf", 1 - theta - 8.0L * n * T->eps); goto done; }
                WK_RATIO(1, (double)((1 / kappa) / (rc > 0 ? rc : 1e-300L)));
            } else WK_COUNT(C_VOID);
        } else WK_COUNT(C_VOID);
    }
done:
    xs_destroy(&X.s);
}

/* ---------------------------------------------------------------------- C13 */
static void run_C13(const vcase *c, vres *r)
{
    if (!premise_nonsingular(c, r)) return;
    int n = c->n; const vf_type *T = vf_T(c->type);
    xrun X; x_run(c, &X); r->outcome = x_outcome(c, &X);
    long info = X.s.info;
    if (info >= 1 && info <= n) { r->status = 2; goto done; }
    if (info != 0 && !(info == n + 1 && c->cond)) { wk_fail(r, "unexpected-info", "info=%ld", info); goto done; }
    r->nontrivial = (n >= 2);
    char e = X.s.equed[0]; int rowequ = (e == 'R' || e == 'B'), colequ = (e == 'C' || e == 'B');
    int notran_eff = (c->trans == 0); if (c->stor == 1) notran_eff = !notran_eff;
    dmat A1, Xd, Xs; xs_current_A(&X.s, &A1); dn_to_dense(&X.s.X, &Xd); Xs = Xd;
    for (int j = 0; j < c->nrhs; j++) for (int i = 0; i < n; i++) { xr f = (notran_eff && colequ) ? T->rld(X.s.Cbuf, i) : (!notran_eff && rowequ) ? T->rld(X.s.Rbuf, i) : 1; DM(&Xs, i, j) = DM(&Xd, i, j) / f; }
    if (!c->refine) {
        for (int j = 0; j < c->nrhs; j++) if (T->rld(X.s.ferr, j) != 1.0L || T->rld(X.s.berr, j) != 1.0L) { wk_fail(r, "norefine-ferr-berr", "refinement off but ferr[%d]=%Lg berr[%d]=%Lg (must be exactly 1)", j, T->rld(X.s.ferr, j), j, T->rld(X.s.berr, j)); goto done; }
        /* X must be the unrefined solution: redo the solve with the returned factors on the returned (scaled) B */
        vf_dense Y; dmat Bc = X.B_after; dn_from_dense(&Y, T, &Bc, X.s.X.ld, 0.0);     /* same leading dimension as X: identical kernel path */
        SuperLUStat_t st; StatInit(&st); int inf2 = 0;
        trans_t trant = (c->stor == 0) ? (c->trans == 0 ? NOTRANS : c->trans == 1 ? TRANS : CONJ) : (c->trans == 0 ? TRANS : NOTRANS);
        T->gstrs(trant, &X.s.L, &X.s.U, X.s.perm_c, X.s.perm_r, &Y.M, &st, &inf2);
        StatFree(&st);
        dmat Yd; dn_to_dense(&Y, &Yd); dn_destroy(&Y);
        for (int j = 0; j < c->nrhs; j++) for (int i = 0; i < n; i++) {
            xc want = DM(&Yd, i, j), got = DM(&Xs, i, j);
            if (cabsl(want - got) > 4 * T->eps * cabsl(want) + 4 * T->sfmin) { wk_fail(r, "norefine-solution", "refinement off: X(%d,%d) un-scaled = %Lg%+Lgi differs from the plain solve with the returned factors %Lg%+Lgi", i, j, creall(got), cimagl(got), creall(want), cimagl(want)); goto done; }
        }
        WK_COUNT(C_NOREF);
        goto done;
    }
    if (X.s.stat.RefineSteps > 5 || X.s.stat.RefineSteps < 0) { wk_fail(r, "refine-steps", "RefineSteps=%d", X.s.stat.RefineSteps); goto done; }
    if (X.s.stat.RefineSteps >= 1) WK_COUNT(C_STEPS);
    {
        xr safe1 = (xr)(n + 1) * T->sfmin, safe2 = safe1 / T->eps;
        /* which op did the routine use?  the driver passes trant on the factored orientation; in caller orientation that is the requested op,
           except the NR+CONJ quirk (F10) where the transpose is used */
        int op = c->trans; if (c->stor == 1 && c->trans == 2) op = 1;
        for (int j = 0; j < c->nrhs; j++) {
            xr fe = T->rld(X.s.ferr, j), be = T->rld(X.s.berr, j);
            if (!(fe >= 0) || !isfinite((double)fe)) { wk_fail(r, "ferr-range", "ferr[%d]=%Lg", j, fe); goto done; }
            if (!(be >= 0) || !isfinite((double)be)) { wk_fail(r, "berr-range", "berr[%d]=%Lg", j, be); goto done; }
            xr omega = 0; int border = 0, nonfinite = 0;
            for (int i = 0; i < n; i++) if (!isfinite((double)creall(DM(&Xs, i, j))) || !isfinite((double)cimagl(DM(&Xs, i, j)))) nonfinite = 1;
            if (nonfinite) { WK_COUNT(C_BORD); continue; }
            for (int i = 0; i < n; i++) {
                xc res = DM(&X.B_after, i, j); xr den = xmag(T, DM(&X.B_after, i, j));
                for (int k = 0; k < n; k++) { xc a = op ? DM(&A1, k, i) : DM(&A1, i, k); if (op == 2) a = conjl(a); res -= a * DM(&Xs, k, j); den += xmag(T, a) * xmag(T, DM(&Xs, k, j)); }
                xr num = xmag(T, res);
                if (den == 0) continue;
                if (den < 16 * T->sfmin || fabsl(den - safe2) <= 1e-3L * safe2) { border = 1; continue; }
                xr q = den > safe2 ? num / den : (safe1 + num) / den;
                if (q > omega) omega = q;
            }
            if (border) { WK_COUNT(C_BORD); continue; }
            xr allow = 2.0L * (n + 2) * T->eps + 8 * T->eps * omega;
            WK_COUNT(C_BERR);
            if (fabsl(be - omega) > allow) { wk_fail(r, "berr", "berr[%d]=%Lg but the componentwise backward error of the returned X is %Lg (difference %Lg > %Lg)", j, be, omega, fabsl(be - omega), allow); goto done; }
            WK_RATIO(2, (double)(fabsl(be - omega) / allow));
        }
    }
done:
    xs_destroy(&X.s);
}

/* --------------------------------------------------------------------- C04x
 * expert driver on every pattern (singular included): singular return leaves B, X untouched; info consistent */
static void run_C04x(const vcase *c, vres *r)
{
    int n = c->n; const vf_type *T = vf_T(c->type);
    xrun X; x_run(c, &X); r->outcome = x_outcome(c, &X);
    long info = X.s.info; int srank = pat_struct_rank(n, n, c->pat);
    if (info < 0 || info > n + 1) { wk_fail(r, "unexpected-info", "info=%ld from the expert driver on a valid call (n=%d)", info, n); goto done; }
    if (info >= 1 && info <= n) {
        r->nontrivial = 1;
        /* no solve attempted: B is bit-identical to its input, X untouched */
        for (int j = 0; j < c->nrhs; j++) for (int i = 0; i < X.s.B.ld; i++) {
            xc b0 = i < n ? DM(&X.B_in, i, j) : (xc)7777.25L + (T->cplx ? 7777.25L * I : 0), b1 = T->ld(X.s.B.val, i + (long)j * X.s.B.ld);
            if (b0 != b1) { wk_fail(r, "rhs-modified-on-singular", "info=%ld (singular) but B(%d,%d) changed from %Lg to %Lg", info, i, j, creall(b0), creall(b1)); goto done; }
        }
        for (int j = 0; j < c->nrhs; j++) for (int i = 0; i < n; i++) if (creall(T->ld(X.s.X.val, i + (long)j * X.s.X.ld)) != -4242.5L) { wk_fail(r, "x-written-on-singular", "info=%ld (singular) but X(%d,%d) was written", info, i, j); goto done; }
        WK_COUNT(C_SBUNT);
    } else {
        if (srank < n) {
            /* F9 (no structural-rank test) also shows through the expert driver; classify exactly as C04 does */
            dmat A1, F, Ld, Ud; xs_current_A(&X.s, &A1); if (c->stor == 0) F = A1; else transpose_dm(&A1, &F);
            if (expand_L(T, &X.s.L, &Ld) || expand_U(T, &X.s.L, &X.s.U, &Ud)) { wk_fail(r, "structure", "cannot expand factors"); goto done; }
            int tiny = 0; xc W[NMAX][NMAX]; int ipc[NMAX], ipr[NMAX]; xr amax = 0, umax = 0;
            for (int j = 0; j < n; j++) { ipc[X.s.perm_c[j]] = j; ipr[X.s.perm_r[j]] = j; }
            for (int i = 0; i < n; i++) for (int j = 0; j < n; j++) { W[i][j] = DM(&F, ipr[i], ipc[j]); if (cabsl(W[i][j]) > amax) amax = cabsl(W[i][j]); if (cabsl(DM(&Ud, i, j)) > umax) umax = cabsl(DM(&Ud, i, j)); }
            for (int k = 0; k < n; k++) {
                if (cabsl(W[k][k]) <= 1e-12L * amax) { tiny = cabsl(DM(&Ud, k, k)) <= 1e4L * T->eps * (amax > umax ? amax : umax); break; }
                for (int i = k + 1; i < n; i++) { xc l = W[i][k] / W[k][k]; for (int j = k; j < n; j++) W[i][j] -= l * W[k][j]; }
            }
            wk_fail(r, tiny ? "struct-singular-accepted-rounding" : "struct-singular-accepted", "structural rank %d < n=%d but info=%ld", srank, n, info);
            goto done;
        }
        for (int j = 0; j < n; j++) {
            const SCformat *Ls = X.s.L.Store; int sn = Ls->col_to_sup[j], f = Ls->sup_to_col[sn];
            if (T->ld(Ls->nzval, (long)Ls->nzval_colptr[j] + (j - f)) == 0) { wk_fail(r, "zero-diagonal", "info=%ld but U(%d,%d) is exactly zero", info, j, j); goto done; }
        }
    }
done:
    xs_destroy(&X.s);
}

static const char RULE[] = "full Cartesian product of the listed dimensions through xgssvx (Fact=DOFACT); every index is a distinct case; non-trivial = the call reached the judged branch (info=0 or n+1 with n>=2; for the singular families 1<=info<=n)";
const vf_check vf_checks[] = {
    { "C05", sz_05, dec_05, run_C05, CNT, RAT, RULE, desc_05 },
    { "C12", sz_12, dec_12, run_C12, CNT, RAT, RULE, desc_12 },
    { "C13", sz_13, dec_13, run_C13, CNT, RAT, RULE, desc_13 },
    { "C04x", sz_04x, dec_04x, run_C04x, CNT, RAT, RULE, desc_04x },
};
const int vf_nchecks = 4;
int main(int argc, char **argv) { return wk_main(argc, argv); }
