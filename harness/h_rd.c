/* Engine E1: C16 (matrix file readers return exactly the matrix in the file).
 * Files are produced by the reference writer below and handed to the readers through fmemopen()
 * (FILE* readers) or by assigning glibc's stdin (readers that read standard input). */
#define _GNU_SOURCE
#include "e1.h"
#include <ctype.h>
extern void dreadtriple_noheader(int *, int *, int_t *, double **, int_t **, int_t **);

static const char *const CNT[] = { "hb_files", "rb_files", "mm_files", "triplet_files", "triplet_noheader_files", "symmetric_files", "sym_all_diag", "sym_some_diag", "sym_no_diag", "with_rhs_block", "D_exponent", "P_scale", "F_editing", "complex_files", "zero_based", "comment_lines", "hb_descending_row_order", "hb_full_width_integer_fields", NULL };
enum { K_HB, K_RB, K_MM, K_TR, K_TRN, K_SYM, K_SALL, K_SSOME, K_SNONE, K_RHS, K_DEXP, K_PSC, K_FED, K_CPLX, K_ZB, K_COMM, K_DESC, K_TIGHT };
static const char *const RAT[] = { NULL };

/* ------------------------------------------------------------- matrices */
static const double VALS16[] = { 1.0, -2.5, 1.0e10, 3.125e-7, 0.1, -7.0 };
static void make_matrix(const vcase *c, const vf_type *T, dmat *A, int symmetric)
{
    int n = c->n; memset(A, 0, sizeof *A); A->m = A->n = n;
    for (int i = 0; i < n; i++) for (int j = 0; j < n; j++) {
        int bit = (int)((c->pat >> (i * n + j)) & 1);
        if (symmetric) { int lo = i >= j ? i : j, hi = i >= j ? j : i; bit = (int)((c->pat >> (lo * n + hi)) & 1); }   /* lower triangle of the pattern defines a symmetric matrix */
        if (!bit) continue;
        int a = symmetric ? (i >= j ? i : j) : i, b = symmetric ? (i >= j ? j : i) : j;
        double re = VALS16[(a * 3 + b * 5 + c->vals) % 6], im = VALS16[(a * 5 + b * 7 + c->vals + 2) % 6];
        if (c->k == 4) { re = (double)((a * 3 + b) % 9 + 1) * 0.125; im = -(double)((a + b * 2) % 5 + 1) * 0.5; }       /* values exactly representable with F10.3 */
        if (c->vals == 3 && (a + 2 * b) % 3 == 1) re = im = 0.0;      /* stored entries whose value is exactly zero: still entries of the file */
        DM(A, i, j) = T->cplx ? (xc)(re + im * I) : (xc)re; DZ(A, i, j) = 1;
    }
}

/* ------------------------------------------------------------- writers */
typedef struct { char *p; size_t len, cap; } sbuf;
static void sb_printf(sbuf *s, const char *fmt, ...) __attribute__((format(printf, 2, 3)));
#include <stdarg.h>
static void sb_printf(sbuf *s, const char *fmt, ...)
{
    va_list ap; if (s->len + 512 > s->cap) { s->cap = s->cap ? s->cap * 2 : 8192; s->p = realloc(s->p, s->cap); }
    va_start(ap, fmt); s->len += vsnprintf(s->p + s->len, s->cap - s->len, fmt, ap); va_end(ap);
}
/* value edit descriptors */
static const struct { const char *fmt; int per, width, prec; char kind; int dexp, pscale; } VF[] = {
    { "(5E16.8)", 5, 16, 8, 'E', 0, 0 }, { "(4E20.12)", 4, 20, 12, 'E', 0, 0 }, { "(3D24.16)", 3, 24, 16, 'E', 1, 0 }, { "(1P4E20.12)", 4, 20, 12, 'E', 0, 1 }, { "(8F10.3)", 8, 10, 3, 'F', 0, 0 }, { "(2E25.17)", 2, 25, 17, 'E', 0, 0 } };
static const struct { const char *fmt; int per, width; } IF[] = { { "(16I5)", 16, 5 }, { "(10I8)", 10, 8 }, { "(8I10)", 8, 10 }, { "(1I14)", 1, 14 }, { "(40I2)", 40, 2 }, { "(80I1)", 80, 1 } };   /* the last two: fields filled to their full width, no blank between neighbours */
#define NIF 6
static void fmt_value(char *out, double v, int vf)
{
    char tmp[64];
    if (VF[vf].kind == 'F') snprintf(tmp, sizeof tmp, "%*.*f", VF[vf].width, VF[vf].prec, v);
    else snprintf(tmp, sizeof tmp, "%*.*E", VF[vf].width, VF[vf].prec, v);
    if (VF[vf].dexp) for (char *q = tmp; *q; q++) if (*q == 'E') *q = 'D';
    strcpy(out, tmp);
}
static double field_value(const char *field) { char t[64]; snprintf(t, sizeof t, "%s", field); for (char *q = t; *q; q++) if (*q == 'D' || *q == 'd') *q = 'E'; return strtod(t, NULL); }
static int lines_for(long n, int per) { return (int)((n + per - 1) / per); }

/* expected matrix as read back: value of each printed field */
typedef struct { int m, n; long nnz; dmat A; } expect;

static int hb_desc = 0;
/* HB / RB: compressed column of `S` (what is stored: full matrix, or lower triangle incl. stored diagonal for symmetric) */
static void write_hb(sbuf *s, const vf_type *T, const dmat *A, int symmetric, int pf, int xf, int vf, int with_rhs, int rb, expect *E)
{
    int n = A->n; long nnz = 0; static int_t cp[NMAX + 1], ri[NMAX * NMAX]; static double vr[NMAX * NMAX], vi[NMAX * NMAX];
    for (int j = 0; j < n; j++) { cp[j] = (int_t)nnz; for (int i = 0; i < n; i++) if (DZ(A, i, j) && (!symmetric || i >= j)) { ri[nnz] = i; vr[nnz] = (double)creall(DM(A, i, j)); vi[nnz] = (double)cimagl(DM(A, i, j)); nnz++; } }
    cp[n] = (int_t)nnz;
    if (hb_desc) for (int j = 0; j < n; j++) for (long a = cp[j], b = cp[j + 1] - 1; a < b; a++, b--) {   /* entries of a column in descending row order: the stored diagonal of a symmetric file comes last */
        int_t ti = ri[a]; ri[a] = ri[b]; ri[b] = ti; double t = vr[a]; vr[a] = vr[b]; vr[b] = t; t = vi[a]; vi[a] = vi[b]; vi[b] = t; }
    long nvals = T->cplx ? 2 * nnz : nnz;
    int ptrcrd = lines_for(n + 1, IF[pf].per), indcrd = lines_for(nnz, IF[xf].per), valcrd = lines_for(nvals, VF[vf].per), rhscrd = (with_rhs && !rb) ? lines_for(n, VF[vf].per) : 0;
    sb_printf(s, "%-72s%-8s\n", "verif generated matrix", "VF000001");
    if (rb) sb_printf(s, "%14d%14d%14d%14d\n", ptrcrd + indcrd + valcrd, ptrcrd, indcrd, valcrd);
    else sb_printf(s, "%14d%14d%14d%14d%14d\n", ptrcrd + indcrd + valcrd + rhscrd, ptrcrd, indcrd, valcrd, rhscrd);
    sb_printf(s, "%c%c%c%11s%14d%14d%14ld%14d\n", T->cplx ? 'C' : 'R', symmetric ? 'S' : 'U', 'A', "", n, n, nnz, 0);
    if (rb) sb_printf(s, "%-16s%-16s%-20s\n", IF[pf].fmt, IF[xf].fmt, VF[vf].fmt);
    else sb_printf(s, "%-16s%-16s%-20s%-20s\n", IF[pf].fmt, IF[xf].fmt, VF[vf].fmt, VF[vf].fmt);
    if (rhscrd) sb_printf(s, "F  %11s%14d%14d\n", "", 1, 0);
    for (int k = 0; k <= n; k++) { sb_printf(s, "%*ld", IF[pf].width, (long)cp[k] + 1); if ((k + 1) % IF[pf].per == 0 || k == n) sb_printf(s, "\n"); }
    for (long k = 0; k < nnz; k++) { sb_printf(s, "%*ld", IF[xf].width, (long)ri[k] + 1); if ((k + 1) % IF[xf].per == 0 || k == nnz - 1) sb_printf(s, "\n"); }
    memset(E, 0, sizeof *E); E->m = E->n = n;
    long col = 0;
    for (long q = 0; q < nvals; q++) {
        long k = T->cplx ? q / 2 : q; double v = T->cplx ? ((q & 1) ? vi[k] : vr[k]) : vr[k]; char f[64]; fmt_value(f, v, vf);
        sb_printf(s, "%s", f); if ((q + 1) % VF[vf].per == 0 || q == nvals - 1) sb_printf(s, "\n");
        double rv = field_value(f);
        while (k >= cp[col + 1]) col++;
        int i = (int)ri[k], j = (int)col;
        if (T->cplx) { if (q & 1) DM(&E->A, i, j) = creall(DM(&E->A, i, j)) + rv * (xc)I; else DM(&E->A, i, j) = rv; } else DM(&E->A, i, j) = rv;
        DZ(&E->A, i, j) = 1;
    }
    if (rhscrd) for (int k = 0; k < n; k++) { char f[64]; fmt_value(f, 1.0 + k, vf); sb_printf(s, "%s", f); if ((k + 1) % VF[vf].per == 0 || k == n - 1) sb_printf(s, "\n"); }
    if (symmetric) for (int i = 0; i < n; i++) for (int j = 0; j < i; j++) if (DZ(&E->A, i, j)) { DM(&E->A, j, i) = DM(&E->A, i, j); DZ(&E->A, j, i) = 1; }   /* symmetric (not Hermitian) expansion */
    E->nnz = 0; for (int i = 0; i < n; i++) for (int j = 0; j < n; j++) E->nnz += DZ(&E->A, i, j);
}
/* coordinate files; order = permutation index of the entry list; zero_based / header variants */
static void write_coord(sbuf *s, const vf_type *T, const dmat *A, int symmetric, int mm, int header, int zero_based, int order, int comments, expect *E)
{
    int n = A->n; int er[NMAX * NMAX], ec[NMAX * NMAX]; long ne = 0;
    for (int j = 0; j < n; j++) for (int i = 0; i < n; i++) if (DZ(A, i, j) && (!symmetric || i >= j)) { er[ne] = i; ec[ne] = j; ne++; }
    /* entry order: all permutations for ne<=4 (order < ne!), else 4 fixed shuffles */
    int perm[NMAX * NMAX];
    if (ne <= 4 && ne > 0) { int p4[NMAX]; perm_unrank((int)ne, order, p4); for (long k = 0; k < ne; k++) perm[k] = p4[k]; }
    else for (long k = 0; k < ne; k++) perm[k] = (int)((order == 0) ? k : (order == 1) ? ne - 1 - k : (order == 2) ? (k * 7 + 3) % ne : (k % 2 ? k / 2 : ne - 1 - k / 2));
    if (ne > 4 && order == 2) { /* (k*7+3)%ne is a bijection only if gcd(7,ne)=1 */ if (ne % 7 == 0) for (long k = 0; k < ne; k++) perm[k] = (int)((k * 5 + 1) % ne); }
    if (mm) {
        sb_printf(s, "%%%%MatrixMarket matrix coordinate %s %s\n", T->cplx ? "complex" : "real", symmetric ? "symmetric" : "general");
        if (comments) sb_printf(s, "%% a comment line\n%%\n%% another one with numbers 1 2 3\n");
        if (comments == 2) sb_printf(s, "\n");      /* a blank line between the comment block and the size line (the reference reader mmio.c skips it) */
        sb_printf(s, "%d %d %ld\n", n, n, ne);
    } else if (header) sb_printf(s, "%d %ld\n", n, ne);
    memset(E, 0, sizeof *E); E->m = E->n = n;
    for (long q = 0; q < ne; q++) {
        int i = er[perm[q]], j = ec[perm[q]]; char fr[64], fi[64];
        snprintf(fr, sizeof fr, "%.17g", (double)creall(DM(A, i, j))); snprintf(fi, sizeof fi, "%.17g", (double)cimagl(DM(A, i, j)));
        if (T->cplx) sb_printf(s, "%d %d %s %s\n", i + 1 - zero_based, j + 1 - zero_based, fr, fi); else sb_printf(s, "%d %d %s\n", i + 1 - zero_based, j + 1 - zero_based, fr);
        DM(&E->A, i, j) = T->cplx ? strtod(fr, NULL) + strtod(fi, NULL) * (xc)I : (xc)strtod(fr, NULL); DZ(&E->A, i, j) = 1;
        if (symmetric && i != j) { DM(&E->A, j, i) = DM(&E->A, i, j); DZ(&E->A, j, i) = 1; }
    }
    E->nnz = 0; for (int i = 0; i < n; i++) for (int j = 0; j < n; j++) E->nnz += DZ(&E->A, i, j);
}

/* ------------------------------------------------------------- families
 * aux: 0 HB, 1 RB, 2 MM, 3 triplet with header, 4 triplet without header (d only)
 * k: value format index (HB/RB) ; aux2: ptr/ind format ; aux3: symmetric ; rhs: with rhs block / comments / zero-based ; permid: entry order */
static void pat_small(int idx, vcase *c) { if (idx < N_ALL123) all123(idx, &c->n, &c->pat); else { int q = idx - N_ALL123; c->n = 5; c->pat = dev1_pattern(5, base_pattern(5, q / 26), q % 26); } c->m = c->n; }
#define NPAT (N_ALL123 + 9 * 26)
static void s_hb(const int *d, vcase *c) { pat_small(d[0], c); c->aux = d[1]; c->k = d[2]; c->aux2 = d[3]; c->aux3 = d[4]; c->rhs = d[5]; c->type = d[6]; c->vals = d[0] % 4; }
static void s_mm(const int *d, vcase *c) { pat_small(d[0], c); c->aux = 2; c->aux3 = d[1]; c->rhs = d[2]; c->permid = d[3]; c->type = d[4]; c->vals = d[0] % 4; }
static void s_tr(const int *d, vcase *c) { pat_small(d[0], c); c->aux = 3; c->rhs = d[1]; c->permid = d[2]; c->type = d[3]; c->vals = d[0] % 4; }
static void s_trn(const int *d, vcase *c) { pat_small(d[0], c); c->aux = 4; c->rhs = d[1]; c->permid = d[2]; c->type = TD; c->vals = d[0] % 4; }
static const family F16[] = {
    { "HB/RB: (ALL(1..3) + DEV_1(BASE(5))) x {HB,RB} x 6 value formats x 6 integer formats (two with fields filled to their full width) x {general, symmetric, symmetric with descending rows, general with descending rows} x {no rhs, rhs block} x type4", 7, { NPAT, 2, 6, 6, 4, 2, 4 }, s_hb },
    { "Matrix Market: patterns x {general, symmetric} x {plain, comment lines, comment lines + blank line} x 24 entry orders x type4", 5, { NPAT, 2, 3, 24, 4 }, s_mm },
    { "triplet with header: patterns x {1-based, 0-based} x 24 entry orders x type4", 4, { NPAT, 2, 24, 4 }, s_tr },
    { "triplet without header (EXAMPLE/dreadtriple_noheader.c): patterns x {1-based,0-based} x 24 entry orders", 3, { NPAT, 2, 24 }, s_trn },
};
#define NF(F) ((int)(sizeof F / sizeof *F))
static long sz_16(int tier) { return fam_total(F16, NF(F16)); }
static void dec_16(int tier, long idx, vcase *c) { fam_decode(F16, NF(F16), idx, c); }
static void desc_16(int tier, char *b, size_t cap) { fam_describe(F16, NF(F16), b, cap); }

static void run_C16(const vcase *c, vres *r)
{
    const vf_type *T = vf_T(c->type); int n = c->n; dmat A; expect E; sbuf s = { 0, 0, 0 };
    int symmetric = (c->aux <= 2) ? (c->aux3 == 1 || c->aux3 == 2) : 0;
    hb_desc = (c->aux <= 1 && c->aux3 >= 2); if (hb_desc) WK_COUNT(K_DESC);
    vcase cc = *c; if (c->aux <= 1 && VF[c->k].kind == 'F') cc.k = 4; else cc.k = 0;
    make_matrix(&cc, T, &A, symmetric);
    long stored = 0; for (int i = 0; i < n; i++) for (int j = 0; j < n; j++) if (DZ(&A, i, j) && (!symmetric || i >= j)) stored++;
    if (stored == 0) { r->status = 2; return; }
    if (symmetric) { int nd = 0; for (int i = 0; i < n; i++) nd += DZ(&A, i, i); WK_COUNT(K_SYM); WK_COUNT(nd == n ? K_SALL : nd == 0 ? K_SNONE : K_SSOME); }
    if (T->cplx) WK_COUNT(K_CPLX);
    int zero_based = 0;
    if (c->aux <= 1) {
        { int pf = c->aux2, xf = (c->aux2 + 1) % NIF; long lim[] = { 100000, 100000000, 2000000000, 2000000000, 100, 10 };
          long nst = symmetric ? stored : stored;       /* pointers run up to stored+1, indices up to n */
          if (nst + 1 >= lim[pf] || n >= lim[xf]) { free(s.p); r->status = 2; return; }      /* the numbers must fit the declared field width */
          if (pf >= 4 || xf >= 4) WK_COUNT(K_TIGHT);
          write_hb(&s, T, &A, symmetric, pf, xf, c->k, c->rhs, c->aux == 1, &E); }
        WK_COUNT(c->aux == 0 ? K_HB : K_RB); if (c->rhs && c->aux == 0) WK_COUNT(K_RHS); if (VF[c->k].dexp) WK_COUNT(K_DEXP); if (VF[c->k].pscale) WK_COUNT(K_PSC); if (VF[c->k].kind == 'F') WK_COUNT(K_FED);
    } else {
        long ne = stored; int order = c->permid;
        if (ne <= 4) { int f = 1; for (int q = 2; q <= ne; q++) f *= q; if (order >= f) { free(s.p); r->status = 2; return; } } else if (order >= 4) { free(s.p); r->status = 2; return; }
        zero_based = (c->aux >= 3) ? c->rhs : 0;
        write_coord(&s, T, &A, symmetric, c->aux == 2, c->aux == 3, zero_based, order, c->aux == 2 ? c->rhs : 0, &E);
        WK_COUNT(c->aux == 2 ? K_MM : c->aux == 3 ? K_TR : K_TRN); if (zero_based) WK_COUNT(K_ZB); if (c->aux == 2 && c->rhs) WK_COUNT(K_COMM);
        /* the readers recognise 0-based files by a zero index in the first entry (with header) / anywhere (without header): only such files are in the premise */
        if (zero_based) {
            int first_has_zero = 0, any_zero = 0; const char *p = s.p; if (c->aux == 3) p = strchr(p, '\n') + 1;
            int fi, fj; if (sscanf(p, "%d %d", &fi, &fj) == 2 && (fi == 0 || fj == 0)) first_has_zero = 1;
            for (int i = 0; i < n; i++) for (int j = 0; j < n; j++) if (DZ(&A, i, j) && (i == 0 || j == 0)) any_zero = 1;
            if ((c->aux == 3 && !first_has_zero) || (c->aux == 4 && !any_zero)) { free(s.p); r->status = 2; return; }
        }
        if (c->aux == 4) { /* without a header the order n is the largest index seen */ int mx = 0; for (int i = 0; i < n; i++) for (int j = 0; j < n; j++) if (DZ(&A, i, j)) { if (i > mx) mx = i; if (j > mx) mx = j; } E.m = E.n = mx + 1; }
    }
    int m2 = -1, n2 = -1; int_t nnz2 = -1, *ri = NULL, *cp = NULL; void *val = NULL;
    long live0 = vf_live_count();
    FILE *fp = fmemopen(s.p, s.len, "r"), *saved = stdin;
    switch (c->aux) {
    case 0: T->readhb(fp, &m2, &n2, &nnz2, &val, &ri, &cp); break;                         /* closes fp itself */
    case 1: stdin = fp; T->readrb(&m2, &n2, &nnz2, &val, &ri, &cp); stdin = saved; break;   /* closes it too */
    case 2: T->readMM(fp, &m2, &n2, &nnz2, &val, &ri, &cp); fclose(fp); break;
    case 3: stdin = fp; T->readtriple(&m2, &n2, &nnz2, &val, &ri, &cp); stdin = saved; fclose(fp); break;
    default: stdin = fp; dreadtriple_noheader(&m2, &n2, &nnz2, (double **)&val, &ri, &cp); stdin = saved; fclose(fp); break;
    }
    r->nontrivial = (n >= 2); r->outcome = (uint64_t)c->aux * 1000 + (uint64_t)c->k * 10 + symmetric;
    if (m2 != E.m || n2 != E.n) { wk_fail(r, "dimensions", "reader returned %d x %d, the file holds %d x %d", m2, n2, E.m, E.n); goto done; }
    if ((long)nnz2 != E.nnz) { wk_fail(r, "nnz", "reader returned nnz=%ld, the file describes %ld entries%s", (long)nnz2, E.nnz, symmetric ? " after symmetric expansion" : ""); goto done; }
    if (!val || !ri || !cp) { wk_fail(r, "null-array", "reader returned a NULL array"); goto done; }
    if (cp[0] != 0 || cp[n2] != nnz2) { wk_fail(r, "colptr", "colptr[0]=%ld colptr[n]=%ld nnz=%ld", (long)cp[0], (long)cp[n2], (long)nnz2); goto done; }
    {
        dmat G; memset(&G, 0, sizeof G); G.m = m2; G.n = n2;
        for (int j = 0; j < n2; j++) {
            if (cp[j + 1] < cp[j]) { wk_fail(r, "colptr", "colptr not monotone at %d", j); goto done; }
            for (int_t k = cp[j]; k < cp[j + 1]; k++) {
                int i = (int)ri[k]; if (i < 0 || i >= m2) { wk_fail(r, "row-index", "row index %d out of range in column %d", i, j); goto done; }
                if (DZ(&G, i, j)) { wk_fail(r, "duplicate-entry", "entry (%d,%d) returned twice", i, j); goto done; }
                DM(&G, i, j) = T->ld(val, k); DZ(&G, i, j) = 1;
            }
        }
        for (int i = 0; i < m2; i++) for (int j = 0; j < n2; j++) {
            if (DZ(&G, i, j) != DZ(&E.A, i, j)) { wk_fail(r, "pattern", "entry (%d,%d): %s in the returned matrix but %s in the file", i, j, DZ(&G, i, j) ? "present" : "absent", DZ(&E.A, i, j) ? "present" : "absent"); goto done; }
            if (!DZ(&G, i, j)) continue;
            /* value printed in the file, rounded to the reader's precision (directly or via double) */
            xc w = DM(&E.A, i, j), g = DM(&G, i, j); int ok;
            if (T->id == TS || T->id == TC) ok = ((float)creall(w) == (float)creall(g) || nextafterf((float)creall(w), 0) == (float)creall(g) || nextafterf((float)creall(w), 2 * (float)creall(w)) == (float)creall(g)) && ((float)cimagl(w) == (float)cimagl(g) || fabsl(cimagl(w) - cimagl(g)) <= 1.2e-7L * fabsl(cimagl(w)));
            else ok = (creall(w) == creall(g) && cimagl(w) == cimagl(g));
            if (!ok) { wk_fail(r, "value", "entry (%d,%d): returned %.17Lg%+.17Lgi, the file says %.17Lg%+.17Lgi", i, j, creall(g), cimagl(g), creall(w), cimagl(w)); goto done; }
        }
    }
    if (vf_live_count() != live0 + 3) { wk_fail(r, "allocations", "%ld library blocks are live after the reader returned (exactly the three result arrays expected)", vf_live_count() - live0); goto done; }
done:
    if (r->status == 1 && wk_verbose) fprintf(stderr, "---- file ----\n%.*s--------------\n", (int)s.len, s.p);
    if (val) SUPERLU_FREE(val); if (ri) SUPERLU_FREE(ri); if (cp) SUPERLU_FREE(cp);
    free(s.p);
}
static const char RULE16[] = "every (matrix, encoding) of the listed products: the file is produced by the reference writer and parsed by the real reader; dimensions, pattern and values (equal to strtod of the printed field) must match, symmetric storage expanded; non-trivial = order >= 2";
const vf_check vf_checks[] = { { "C16", sz_16, dec_16, run_C16, CNT, RAT, RULE16, desc_16 } };
const int vf_nchecks = 1;
int main(int argc, char **argv) { return wk_main(argc, argv); }
