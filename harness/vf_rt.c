/* Intercept layer: allocation ledger, fault plans, abort capture, tuning
 * parameters, crash reporting.  Linked into every harness binary; in the
 * tsan/mon variants this file is compiled WITHOUT instrumentation. */
#define _GNU_SOURCE
#include <stdio.h>
#include <stdlib.h>
#include <string.h>
#include <stdint.h>
#include <signal.h>
#include <unistd.h>
#include <setjmp.h>
#include <pthread.h>
#include <execinfo.h>
#include <dlfcn.h>
#include <fcntl.h>
#include "vf.h"

int  vf_tune[8] = {0, 20, 10, 200, 200, 100, 30, 10};
int  vf_fill_byte = 0xA5;
long vf_alloc_serial = 0;
long vf_n_free_unknown = 0, vf_n_free_null = 0;
char vf_last_bad_free[256];
int  vf_abort_armed = 0;
jmp_buf vf_abort_jmp;
char vf_abort_msg[300];
long vf_fail_k = 0; const char *vf_fail_func = NULL; long vf_fail_seen = 0, vf_fail_fired = 0; int vf_fail_sticky = 0;
long vf_expand_requests = 0;
volatile long *vf_progress = NULL;

/* per-thread hooks used by the schedule explorer (NULL otherwise) */
void (*vf_sched_point)(int kind) = NULL;
int  (*vf_cur_tid)(void) = NULL;
void *(*vf_arena_alloc)(size_t) = NULL;   /* per-thread bump arena (mon variant) */

int sp_ienv(int ispec)
{
    if (ispec >= 1 && ispec <= 7) return vf_tune[ispec];
    return slu_default_sp_ienv(ispec);
}
void vf_set_defaults_tune(void) { for (int i = 1; i <= 7; i++) vf_tune[i] = slu_default_sp_ienv(i); }

/* ------------------------------------------------------------------ ledger */
#ifdef VF_ASAN
#define VF_RZ 0
#else
#define VF_RZ 16
#endif
#define VF_RZ_BYTE 0xC3
long vf_n_overrun = 0; char vf_last_overrun[256];
static int rz_ok(const void *p, size_t size) { const unsigned char *q = (const unsigned char *)p + size; for (int i = 0; i < VF_RZ; i++) if (q[i] != VF_RZ_BYTE) return 0; return 1; }

/* input_error (SRC/input_error.c, compiled as slu_input_error) only prints; the recorder keeps the routine name and the
 * parameter number of every report so that C18 can also judge routines without an info argument (sp_xgemv). */
extern void slu_input_error(char *srname, int *info);
__thread int vf_ie_count; __thread int vf_ie_last; __thread char vf_ie_name[16];
int input_error(char *srname, int *info)
{
    vf_ie_count++; vf_ie_last = *info; snprintf(vf_ie_name, sizeof vf_ie_name, "%s", srname);
    slu_input_error(srname, info); return 0;
}
/* user_bcopy (SRC/memory.c, compiled as slu_user_bcopy) moves the arrays behind an expanded one forward inside a caller
   workspace; the range it vacates becomes the not-yet-written tail of the expanded array.  Poison it, so that a stale
   pointer into the old location reads garbage deterministically instead of a still-intact copy. */
extern void slu_user_bcopy(char *src, char *dest, int bytes);
void user_bcopy(char *src, char *dest, int bytes)
{
    slu_user_bcopy(src, dest, bytes);
    if (vf_fill_byte >= 0 && dest > src) { long gap = dest - src; if (gap > bytes) gap = bytes; memset(src, vf_fill_byte, gap); }
}

#define HT_BITS 10
static vf_block *ht = NULL; static size_t ht_cap = 0, ht_n = 0;
static pthread_mutex_t ht_mu = PTHREAD_MUTEX_INITIALIZER;
static inline size_t hp(const void *p, size_t cap) { uint64_t x = (uint64_t)(uintptr_t)p; x ^= x >> 17; x *= 0x9E3779B97F4A7C15ull; x ^= x >> 29; return (size_t)x & (cap - 1); }
#define TOMB ((void*)1)
static void ht_insert_raw(vf_block *t, size_t cap, const vf_block *b)
{
    size_t i = hp(b->p, cap);
    while (t[i].p && t[i].p != TOMB) i = (i + 1) & (cap - 1);
    t[i] = *b;
}
static void ht_grow(void)
{
    size_t ncap = ht_cap ? ht_cap * 2 : ((size_t)1 << HT_BITS);
    vf_block *nt = calloc(ncap, sizeof *nt);
    if (!nt) { fprintf(stderr, "vf: ledger out of memory\n"); _exit(97); }
    for (size_t i = 0; i < ht_cap; i++) if (ht[i].p && ht[i].p != TOMB) ht_insert_raw(nt, ncap, &ht[i]);
    free(ht); ht = nt; ht_cap = ncap;
}
static vf_block *ht_find(const void *p)
{
    if (!ht_cap) return NULL;
    size_t i = hp(p, ht_cap);
    while (ht[i].p) { if (ht[i].p == p) return &ht[i]; i = (i + 1) & (ht_cap - 1); }
    return NULL;
}

/* diagnostic only (VF_GROWTH_SITES=<file>): which call site asked for the growth of a factor array */
static const char *vf_growth_log = NULL;
__attribute__((constructor)) static void growth_init(void) { vf_growth_log = getenv("VF_GROWTH_SITES"); }
static void growth_site(void)
{
    void *bt[12]; int nb = backtrace(bt, 12); char line[256] = ""; size_t o = 0; int seen = 0;
    for (int i = 0; i < nb && o + 60 < sizeof line; i++) {
        Dl_info di; if (!dladdr(bt[i], &di) || !di.dli_sname) continue;
        if (strstr(di.dli_sname, "LUMemXpand")) { seen = 1; continue; }
        if (seen) { o += snprintf(line + o, sizeof line - o, "%s+0x%lx\n", di.dli_sname, (unsigned long)((char *)bt[i] - (char *)di.dli_saddr)); break; }
    }
    if (!o) return;
    int fd = open(vf_growth_log, O_WRONLY | O_APPEND | O_CREAT, 0644); if (fd >= 0) { if (write(fd, line, o) < 0) {} close(fd); }
}
void *vf_malloc(size_t size, const char *file, int line, const char *func)
{
    if (vf_sched_point) vf_sched_point(1);
    pthread_mutex_lock(&ht_mu);
    long serial = ++vf_alloc_serial;
    int is_expand = func && (strstr(func, "expand") || strstr(func, "LUMemXpand"));
    if (is_expand) { vf_expand_requests++; if (vf_growth_log) growth_site(); }
    if (vf_fail_k > 0 && (!vf_fail_func || (func && strstr(func, vf_fail_func)))) {
        if (++vf_fail_seen == vf_fail_k || (vf_fail_sticky && vf_fail_seen > vf_fail_k)) { vf_fail_fired++; pthread_mutex_unlock(&ht_mu); return NULL; }
    }
    void *p;
    if (vf_arena_alloc) p = vf_arena_alloc((size ? size : 1) + VF_RZ);
    else p = malloc((size ? size : 1) + VF_RZ);
    if (!p) { pthread_mutex_unlock(&ht_mu); return NULL; }
    if (vf_fill_byte >= 0) memset(p, vf_fill_byte, size);
    memset((char *)p + size, VF_RZ_BYTE, VF_RZ);      /* red zone right after the block */
    if ((ht_n + 1) * 2 > ht_cap) ht_grow();
    vf_block b = { p, size, serial, file, line, func, vf_cur_tid ? vf_cur_tid() : 0 };
    ht_insert_raw(ht, ht_cap, &b); ht_n++;
    pthread_mutex_unlock(&ht_mu);
    return p;
}

void vf_free(void *p, const char *file, int line, const char *func)
{
    if (vf_sched_point) vf_sched_point(2);
    if (!p) { vf_n_free_null++; snprintf(vf_last_bad_free, sizeof vf_last_bad_free, "free(NULL) at %s:%d %s", file, line, func); return; }
    pthread_mutex_lock(&ht_mu);
    vf_block *b = ht_find(p);
    if (!b) {
        vf_n_free_unknown++;
        snprintf(vf_last_bad_free, sizeof vf_last_bad_free, "free of pointer not owned by the ledger (double free / foreign / workspace pointer) at %s:%d %s", file, line, func);
        pthread_mutex_unlock(&ht_mu);
        return;
    }
    size_t sz = b->size;
    if (!rz_ok(p, sz)) { vf_n_overrun++; snprintf(vf_last_overrun, sizeof vf_last_overrun, "write past the end of a %zu-byte block allocated at %s:%d (%s), detected at free", sz, b->file, b->line, b->func); }
    b->p = TOMB; ht_n--;
    /* keep tombstones bounded */
    static size_t tombs = 0;
    if (++tombs > ht_cap / 4) { /* rebuild */
        vf_block *old = ht; size_t ocap = ht_cap;
        ht = calloc(ocap, sizeof *ht);
        for (size_t i = 0; i < ocap; i++) if (old[i].p && old[i].p != TOMB) ht_insert_raw(ht, ocap, &old[i]);
        free(old); tombs = 0;
    }
    pthread_mutex_unlock(&ht_mu);
    if (!vf_arena_alloc) {
#ifndef VF_ASAN
        memset(p, 0xDD, sz < 4096 ? sz : 4096);   /* stale reads see garbage, deterministically */
#endif
        free(p);
    }
}

long vf_check_redzones(void)
{
    long bad = 0;
    for (size_t i = 0; i < ht_cap; i++) if (ht[i].p && ht[i].p != TOMB && !rz_ok(ht[i].p, ht[i].size)) {
        bad++; vf_n_overrun++;
        snprintf(vf_last_overrun, sizeof vf_last_overrun, "write past the end of a %zu-byte block allocated at %s:%d (%s)", ht[i].size, ht[i].file, ht[i].line, ht[i].func);
        memset((char *)ht[i].p + ht[i].size, VF_RZ_BYTE, VF_RZ);
    }
    return bad;
}
long vf_block_size(const void *p) { pthread_mutex_lock(&ht_mu); vf_block *b = ht_find(p); long r = b ? (long)b->size : -1; pthread_mutex_unlock(&ht_mu); return r; }
int vf_owns(const void *p) { pthread_mutex_lock(&ht_mu); int r = ht_find(p) != NULL; pthread_mutex_unlock(&ht_mu); return r; }
long vf_live_count(void) { return (long)ht_n; }
size_t vf_live_bytes(void) { size_t s = 0; for (size_t i = 0; i < ht_cap; i++) if (ht[i].p && ht[i].p != TOMB) s += ht[i].size; return s; }
int vf_live_list(vf_block *out, int max)
{
    int k = 0;
    for (size_t i = 0; i < ht_cap && k < max; i++) if (ht[i].p && ht[i].p != TOMB) out[k++] = ht[i];
    /* sort by serial for determinism */
    for (int i = 1; i < k; i++) { vf_block t = out[i]; int j = i - 1; while (j >= 0 && out[j].serial > t.serial) { out[j + 1] = out[j]; j--; } out[j + 1] = t; }
    return k;
}
void vf_release_all(void)
{
    for (size_t i = 0; i < ht_cap; i++) if (ht[i].p && ht[i].p != TOMB) { if (!vf_arena_alloc) free(ht[i].p); ht[i].p = NULL; }
    if (ht) memset(ht, 0, ht_cap * sizeof *ht);
    ht_n = 0;
}
void vf_reset_case(void)
{
    vf_fail_k = 0; vf_fail_func = NULL; vf_fail_seen = 0; vf_fail_fired = 0; vf_fail_sticky = 0; vf_expand_requests = 0;
    vf_n_free_unknown = 0; vf_n_free_null = 0; vf_last_bad_free[0] = 0; vf_abort_msg[0] = 0; vf_n_overrun = 0; vf_last_overrun[0] = 0;
}

void vf_abort(const char *msg)
{
    snprintf(vf_abort_msg, sizeof vf_abort_msg, "%s", msg ? msg : "(null)");
    for (char *q = vf_abort_msg; *q; q++) if (*q == '\n') *q = ' ';
    if (vf_abort_armed) { vf_abort_armed = 0; longjmp(vf_abort_jmp, 1); }
    fprintf(stderr, "vf_abort (unarmed): %s\n", vf_abort_msg);
    abort();
}

/* ---------------------------------------------------------- crash reporting */
static void (*crash_report)(int, const char *) = NULL;
static char where_buf[512];
const char *vf_crash_where(void) { return where_buf; }
static void on_signal(int sig, siginfo_t *si, void *uc)
{
    void *bt[24]; int n = backtrace(bt, 24); size_t off = 0; where_buf[0] = 0;
    for (int i = 2; i < n && off + 48 < sizeof where_buf; i++) {
        Dl_info di;
        if (dladdr(bt[i], &di) && di.dli_sname) {
            if (!strcmp(di.dli_sname, "main")) break;
            off += snprintf(where_buf + off, sizeof where_buf - off, "%s%s", off ? "<" : "", di.dli_sname);
        }
    }
    if (crash_report) crash_report(sig, where_buf);
    _exit(100 + sig);
}
void vf_install_crash_handlers(void (*report)(int, const char *))
{
    void *bt[4]; backtrace(bt, 4);    /* preload libgcc unwinder */
    crash_report = report;
    static char altstack[1 << 16]; stack_t ss = { altstack, 0, sizeof altstack }; sigaltstack(&ss, NULL);
    struct sigaction sa; memset(&sa, 0, sizeof sa); sa.sa_sigaction = on_signal; sa.sa_flags = SA_SIGINFO | SA_ONSTACK | SA_NODEFER;
    int sigs[] = { SIGSEGV, SIGBUS, SIGFPE, SIGILL, SIGABRT, SIGALRM };
    for (unsigned i = 0; i < sizeof sigs / sizeof *sigs; i++) {
#ifdef VF_ASAN
        if (sigs[i] == SIGSEGV || sigs[i] == SIGBUS || sigs[i] == SIGFPE) continue; /* ASan reports these */
#endif
        sigaction(sigs[i], &sa, NULL);
    }
}
void vf_watchdog(int seconds) { alarm(seconds); }
