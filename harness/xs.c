#include "xs.h"

void xs_init(xs *s, const vf_type *T, int n, uint64_t pat, int vals, int stor)
{
    memset(s, 0, sizeof *s); s->T = T; s->n = n; s->stor = stor;
    make_values(T, n, n, pat, vals, &s->A_orig);
    sp_from_dense(&s->S, T, &s->A_orig, stor);
    for (int i = 0; i < n; i++) { s->perm_c[i] = s->perm_r[i] = s->etree[i] = -7; T->rst(s->Rbuf, i, -1.0); T->rst(s->Cbuf, i, -1.0); T->rst(s->ferr, i, -3.0); T->rst(s->berr, i, -3.0); }
    s->equed[0] = 'X'; T->rst(s->rpg, 0, -5.0); T->rst(s->rcond, 0, -5.0);
    s->info = -999;
}
void xs_set_rhs(xs *s, const dmat *B, int ldbx, int ldxx)
{
    if (s->B.val) dn_destroy(&s->B);
    if (s->X.val) dn_destroy(&s->X);
    dn_from_dense(&s->B, s->T, B, s->n + ldbx, 7777.25);
    dmat Z; memset(&Z, 0, sizeof Z); Z.m = s->n; Z.n = B->n;
    for (int i = 0; i < s->n; i++) for (int j = 0; j < B->n; j++) DM(&Z, i, j) = -4242.5;
    dn_from_dense(&s->X, s->T, &Z, s->n + ldxx, 8888.75);
    s->nrhs = B->n;
}
void xs_call(xs *s, superlu_options_t *opt)
{
    if (s->stat_live) StatFree(&s->stat);
    StatInit(&s->stat); s->stat_live = 1;
    int_t info = -999;
    int fresh = (opt->Fact == DOFACT || opt->Fact == SamePattern);
    if (fresh && s->have_LU && s->lwork != -1) xs_free_LU(s);
    WK_PHASE(1);
    if (s->ilu)
        s->T->gsisx(opt, &s->S.A, s->perm_c, s->perm_r, s->etree, s->equed, s->Rbuf, s->Cbuf, &s->L, &s->U, s->work, (int_t)s->lwork,
                    &s->B.M, &s->X.M, s->rpg, s->rcond, &s->Glu, &s->mu, &s->stat, &info);
    else
        s->T->gssvx(opt, &s->S.A, s->perm_c, s->perm_r, s->etree, s->equed, s->Rbuf, s->Cbuf, &s->L, &s->U, s->work, (int_t)s->lwork,
                    &s->B.M, &s->X.M, s->rpg, s->rcond, s->ferr, s->berr, &s->Glu, &s->mu, &s->stat, &info);
    WK_PHASE(2);
    s->info = (long)info;
    if (opt->Fact != FACTORED && s->lwork != -1) s->lu_lwork = s->lwork;
    if (opt->Fact != FACTORED && s->lwork == -1) return;          /* size query: nothing else changes */
    if (opt->Fact != FACTORED) s->have_LU = (info >= 0 && (info <= s->n || (info == s->n + 1 && opt->ConditionNumber == YES)) && s->lwork != -1);
}
void xs_free_LU(xs *s)
{
    if (!s->have_LU) return;
    if (s->lu_lwork == 0) { Destroy_SuperNode_Matrix(&s->L); Destroy_CompCol_Matrix(&s->U); }
    else { Destroy_SuperMatrix_Store(&s->L); Destroy_SuperMatrix_Store(&s->U); }
    s->have_LU = 0;
}
void xs_destroy(xs *s)
{
    xs_free_LU(s);
    if (s->stat_live) { StatFree(&s->stat); s->stat_live = 0; }
    sp_destroy(&s->S);
    if (s->B.val) dn_destroy(&s->B);
    if (s->X.val) dn_destroy(&s->X);
}
double xs_real(const xs *s, const char *buf, int i) { return (double)s->T->rld(buf, i); }
void xs_current_A(const xs *s, dmat *A) { sp_to_dense(&s->S, A); }

void xs_options(const vcase *c, superlu_options_t *o, xs *s)
{
    fill_options(c, o, s->perm_c, s->n);
    static const trans_t tr[] = { NOTRANS, TRANS, CONJ };
    static const fact_t fa[] = { DOFACT, SamePattern, SamePattern_SameRowPerm, FACTORED };
    o->Trans = tr[c->trans]; o->Equil = c->equil ? YES : NO; o->Fact = fa[c->fact];
    o->IterRefine = c->refine ? ((s->T->id == TS || s->T->id == TC) ? SLU_SINGLE : SLU_DOUBLE) : NOREFINE;
    o->ConditionNumber = c->cond ? YES : NO; o->PivotGrowth = c->growth ? YES : NO;
}

/* ------------------------------------------------------------ dense helpers */
int dense_inverse(int n, const dmat *A, dmat *Ainv)
{
    xc M[NMAX][2 * NMAX];
    for (int i = 0; i < n; i++) for (int j = 0; j < n; j++) { M[i][j] = DM(A, i, j); M[i][n + j] = (i == j); }
    for (int k = 0; k < n; k++) {
        int p = k; xr best = cabsl(M[k][k]);
        for (int i = k + 1; i < n; i++) if (cabsl(M[i][k]) > best) { best = cabsl(M[i][k]); p = i; }
        if (best == 0) return 1;
        if (p != k) for (int j = 0; j < 2 * n; j++) { xc t = M[p][j]; M[p][j] = M[k][j]; M[k][j] = t; }
        xc d = M[k][k]; for (int j = 0; j < 2 * n; j++) M[k][j] /= d;
        for (int i = 0; i < n; i++) if (i != k && M[i][k] != 0) { xc l = M[i][k]; for (int j = 0; j < 2 * n; j++) M[i][j] -= l * M[k][j]; }
    }
    memset(Ainv, 0, sizeof *Ainv); Ainv->m = Ainv->n = n;
    for (int i = 0; i < n; i++) for (int j = 0; j < n; j++) DM(Ainv, i, j) = M[i][n + j];
    return 0;
}
xr dense_norm(const dmat *A, int inf)
{
    xr best = 0;
    if (!inf) { for (int j = 0; j < A->n; j++) { xr s = 0; for (int i = 0; i < A->m; i++) s += cabsl(DM(A, i, j)); if (s > best) best = s; } }
    else { for (int i = 0; i < A->m; i++) { xr s = 0; for (int j = 0; j < A->n; j++) s += cabsl(DM(A, i, j)); if (s > best) best = s; } }
    return best;
}
void transpose_dm(const dmat *A, dmat *At)
{
    memset(At, 0, sizeof *At); At->m = A->n; At->n = A->m;
    for (int i = 0; i < A->m; i++) for (int j = 0; j < A->n; j++) { DM(At, j, i) = DM(A, i, j); DZ(At, j, i) = DZ(A, i, j); }
}

void ref_etree(const dmat *F, const int *perm_c, int n, int sym, int *parent)
{
    unsigned char B[NMAX][NMAX]; memset(B, 0, sizeof B);
    if (!sym) { for (int r = 0; r < F->m; r++) for (int a = 0; a < n; a++) if (DZ(F, r, a)) for (int b = 0; b < n; b++) if (DZ(F, r, b)) B[perm_c[a]][perm_c[b]] = 1; }
    else { for (int a = 0; a < n; a++) for (int b = 0; b < n; b++) if (DZ(F, a, b) || DZ(F, b, a)) B[perm_c[a]][perm_c[b]] = 1; }
    for (int k = 0; k < n; k++) {
        int p = n; for (int i = k + 1; i < n; i++) if (B[i][k]) { p = i; break; }
        parent[k] = p;
        if (p < n) for (int i = k + 1; i < n; i++) if (B[i][k]) { B[i][p] = 1; B[p][i] = 1; }
    }
}

int o_glu_storage(const xs *s, vres *r)
{
    const GlobalLU_t *G = &s->Glu; const vf_type *T = s->T; if (!s->have_LU) return 0;
    const SCformat *Ls = s->L.Store; const NCformat *Us = s->U.Store; int n = s->n;
    long need_lusup = (long)Ls->nzval_colptr[n], need_lsub = (long)Ls->rowind_colptr[n], need_u = (long)Us->colptr[n];
    if ((long)G->nzlumax < need_lusup || (long)G->nzlmax < need_lsub || (long)G->nzumax < need_u)
        return wk_fail(r, "capacity-below-use", "recorded capacities nzlumax=%ld nzlmax=%ld nzumax=%ld are below what the factors occupy (%ld, %ld, %ld)", (long)G->nzlumax, (long)G->nzlmax, (long)G->nzumax, need_lusup, need_lsub, need_u);
    if (s->lu_lwork == 0) {
        struct { const void *p; long bytes; const char *name; } a[4] = {
            { Ls->nzval, (long)G->nzlumax * (long)T->esz, "lusup" }, { Us->nzval, (long)G->nzumax * (long)T->esz, "ucol" },
            { Ls->rowind, (long)G->nzlmax * (long)sizeof(int_t), "lsub" }, { Us->rowind, (long)G->nzumax * (long)sizeof(int_t), "usub" } };
        for (int k = 0; k < 4; k++) { long have = vf_block_size(a[k].p); if (have >= 0 && have < a[k].bytes) return wk_fail(r, "capacity-exceeds-block", "Glu records room for %ld bytes in %s but the block it lives in was obtained with %ld bytes", a[k].bytes, a[k].name, have); }
    } else if (s->lu_lwork > 0 && s->work) {
        const char *w0 = (const char *)s->work, *w1 = w0 + s->lu_lwork;
        const char *p[4] = { (const char *)Ls->nzval, (const char *)Us->nzval, (const char *)Ls->rowind, (const char *)Us->rowind };
        long by[4] = { (long)G->nzlumax * (long)T->esz, (long)G->nzumax * (long)T->esz, (long)G->nzlmax * (long)sizeof(int_t), (long)G->nzumax * (long)sizeof(int_t) };
        static const char *nm[4] = { "lusup", "ucol", "lsub", "usub" };
        for (int k = 0; k < 4; k++) {
            if (p[k] < w0 || p[k] + by[k] > w1) return wk_fail(r, "workspace-layout", "%s with its recorded capacity (%ld bytes) does not lie inside the caller's workspace", nm[k], by[k]);
            if (k < 3 && p[k] + by[k] > p[k + 1]) return wk_fail(r, "workspace-layout", "%s with its recorded capacity (%ld bytes) overlaps %s", nm[k], by[k], nm[k + 1]);
        }
        long top1 = (long)G->stack.top1, top2 = (long)G->stack.top2, size = (long)G->stack.size, used = (long)G->stack.used;
        if (!(0 <= top1 && top1 <= top2 && top2 <= size)) return wk_fail(r, "stack-invariant", "workspace stack: top1=%ld top2=%ld size=%ld", top1, top2, size);
        if (used != top1 + size - top2) return wk_fail(r, "stack-invariant", "workspace stack: used=%ld but top1 + size - top2 = %ld", used, top1 + size - top2);
    }
    return 0;
}

/* ------------------------------------------------------------------ scaling
 * A_in/B_in: caller-orientation values before the call.  Checks equed, R, C, the values of A and B after the call. */
static int one_of_assoc(const vf_type *T, xc a, xr r, xr c, int user, int usec, xc got)
{
    /* every association order of a*r*c evaluated in working precision, componentwise for complex */
    for (int part = 0; part < (T->cplx ? 2 : 1); part++) {
        xr av = part ? cimagl(a) : creall(a), gv = part ? cimagl(got) : creall(got); int ok = 0;
        if (T->id == TS || T->id == TC) {
            float A = (float)av, R = (float)r, C = (float)c, g = (float)gv;
            float c1 = user && usec ? (A * R) * C : user ? A * R : usec ? A * C : A;
            float c2 = user && usec ? A * (R * C) : c1, c3 = user && usec ? (A * C) * R : c1;
            ok = (g == c1 || g == c2 || g == c3);
        } else {
            double A = (double)av, R = (double)r, C = (double)c, g = (double)gv;
            double c1 = user && usec ? (A * R) * C : user ? A * R : usec ? A * C : A;
            double c2 = user && usec ? A * (R * C) : c1, c3 = user && usec ? (A * C) * R : c1;
            ok = (g == c1 || g == c2 || g == c3);
        }
        if (!ok) return 0;
    }
    return 1;
}
int o_scaling(const xs *s, const dmat *A_in, const dmat *B_in, int trans, int equil, vres *r)
{
    int factored = (equil == 2);   /* equil==2: Fact=FACTORED, A must come back untouched whatever equed says */
    const vf_type *T = s->T; int n = s->n; char e = s->equed[0];
    if (e != 'N' && e != 'R' && e != 'C' && e != 'B') return wk_fail(r, "equed-letter", "equed='%c' (0x%02x) is not one of N,R,C,B", e, (unsigned char)e);
    if (equil == 0 && e != 'N') return wk_fail(r, "equed-without-equil", "Equil=NO but equed='%c'", e);
    int rowequ = (e == 'R' || e == 'B'), colequ = (e == 'C' || e == 'B');
    for (int i = 0; i < n; i++) {
        if (rowequ) { double v = xs_real(s, s->Rbuf, i); if (!(v > 0) || !isfinite(v)) return wk_fail(r, "scale-factor", "R[%d]=%g not positive finite with equed='%c'", i, v, e); }
        if (colequ) { double v = xs_real(s, s->Cbuf, i); if (!(v > 0) || !isfinite(v)) return wk_fail(r, "scale-factor", "C[%d]=%g not positive finite with equed='%c'", i, v, e); }
    }
    dmat A1; xs_current_A(s, &A1);
    for (int i = 0; i < n; i++) for (int j = 0; j < n; j++) {
        if (DZ(&A1, i, j) != DZ(A_in, i, j)) return wk_fail(r, "pattern-changed", "pattern of A changed at (%d,%d)", i, j);
        if (!DZ(A_in, i, j)) continue;
        /* factored orientation: NC: row i scaled by R[i], col j by C[j]; NR (transpose factored): A(i,j) scaled by C[i]*R[j] */
        xr rr = s->stor == 0 ? T->rld(s->Rbuf, i) : T->rld(s->Rbuf, j), cc = s->stor == 0 ? T->rld(s->Cbuf, j) : T->rld(s->Cbuf, i);
        if (factored) { if (DM(A_in, i, j) != DM(&A1, i, j)) return wk_fail(r, "A-modified-by-solve", "Fact=FACTORED modified A(%d,%d)", i, j); continue; }
        if (!one_of_assoc(T, DM(A_in, i, j), rr, cc, rowequ, colequ, DM(&A1, i, j)))
            return wk_fail(r, "A-scaling", "A(%d,%d): in %Lg%+Lgi out %Lg%+Lgi is not in*R*C restricted to equed='%c' (R=%Lg C=%Lg)", i, j,
                           creall(DM(A_in, i, j)), cimagl(DM(A_in, i, j)), creall(DM(&A1, i, j)), cimagl(DM(&A1, i, j)), e, rr, cc);
    }
    /* B: scaled by R if effective notrans and rowequ, by C if effective trans and colequ */
    int notran_eff = (trans == 0); if (s->stor == 1) notran_eff = !notran_eff;
    int useR = notran_eff && rowequ, useC = !notran_eff && colequ;
    dmat B1; dn_to_dense(&s->B, &B1);
    for (int j = 0; j < s->nrhs; j++) for (int i = 0; i < n; i++) {
        xr f = useR ? T->rld(s->Rbuf, i) : useC ? T->rld(s->Cbuf, i) : 1;
        if (!one_of_assoc(T, DM(B_in, i, j), f, 1, useR || useC, 0, DM(&B1, i, j)))
            return wk_fail(r, "B-scaling", "B(%d,%d): in %Lg%+Lgi out %Lg%+Lgi, expected scaling by %s only (equed='%c')", i, j,
                           creall(DM(B_in, i, j)), cimagl(DM(B_in, i, j)), creall(DM(&B1, i, j)), cimagl(DM(&B1, i, j)), useR ? "R" : useC ? "C" : "nothing", e);
    }
    /* padding rows of B and X */
    for (int j = 0; j < s->nrhs; j++) {
        for (int i = n; i < s->B.ld; i++) if (creall(T->ld(s->B.val, i + (long)j * s->B.ld)) != 7777.25L) return wk_fail(r, "padding-overwritten", "padding row %d of B column %d modified", i, j);
        for (int i = n; i < s->X.ld; i++) if (creall(T->ld(s->X.val, i + (long)j * s->X.ld)) != 8888.75L) return wk_fail(r, "padding-overwritten", "padding row %d of X column %d modified", i, j);
    }
    return 0;
}

/* ----------------------------------------------------------------- solution
 * The scaled system: op(A') xs = B' with A' = A after the call, B' = B after, xs = X un-scaled. */
int o_solution(const xs *s, int trans, const dmat *Bafter, vres *r, double *ratio, int *quirk)
{
    const vf_type *T = s->T; int n = s->n; char e = s->equed[0];
    int rowequ = (e == 'R' || e == 'B'), colequ = (e == 'C' || e == 'B');
    int notran_eff = (trans == 0); if (s->stor == 1) notran_eff = !notran_eff;
    dmat A1, F, Ld, Ud, G, X, Xs; xs_current_A(s, &A1);
    if (s->stor == 0) F = A1; else transpose_dm(&A1, &F);
    if (expand_L(T, &s->L, &Ld) || expand_U(T, &s->L, &s->U, &Ud)) return wk_fail(r, "structure", "factor arrays hold an out-of-range index");
    if (!is_perm(s->perm_r, n) || !is_perm(s->perm_c, n)) return wk_fail(r, "perm-not-bijection", "perm_r/perm_c not a bijection on success");
    build_G(&Ld, &Ud, s->perm_r, s->perm_c, s->stor == 1, &G);
    dn_to_dense(&s->X, &X); Xs = X;
    for (int j = 0; j < s->nrhs; j++) for (int i = 0; i < n; i++) {
        xr f = (notran_eff && colequ) ? T->rld(s->Cbuf, i) : (!notran_eff && rowequ) ? T->rld(s->Rbuf, i) : 1;
        DM(&Xs, i, j) = DM(&X, i, j) / f;
    }
    *quirk = 0;
    vres r2; memset(&r2, 0, sizeof r2);
    if (o_residual(T, &A1, trans, &G, Bafter, &Xs, 16.0, &r2, ratio)) {
        if (s->stor == 1 && trans == 2 && T->cplx) {
            /* does X solve the plain transpose instead? (known finding F10) */
            vres r3; memset(&r3, 0, sizeof r3); double q;
            if (!o_residual(T, &A1, 1, &G, Bafter, &Xs, 16.0, &r3, &q)) { *quirk = 1; return wk_fail(r, "nr-conj-solves-transpose", "row storage + Trans=CONJ on complex data: X solves A^T X = B, not A^H X = B (%s)", r2.msg); }
        }
        *r = r2; r->status = 1; return 1;
    }
    return 0;
}

/* ------------------------------------------------------------- incomplete LU */
const int xs_ilu_drops[7] = { NODROP, DROP_BASIC, DROP_BASIC | DROP_AREA, DROP_BASIC | DROP_PROWS, DROP_BASIC | DROP_COLUMN, DROP_BASIC | DROP_AREA | DROP_DYNAMIC, DROP_BASIC | DROP_PROWS | DROP_INTERP };
static const double ILU_TOLS[] = { 1e-4, 0.5, 0.0 };
static const double ILU_FILLS[] = { 10.0, 1.0, 2.0 };
static const norm_t ILU_NORMS[] = { INF_NORM, ONE_NORM, TWO_NORM };
static const milu_t ILU_MILUS[] = { SILU, SMILU_2, SMILU_1, SMILU_3 };
void xs_ilu_options(const vcase *c, int rowperm, superlu_options_t *opt)
{
    ilu_set_default_options(opt); opt->PrintStat = NO;
    int kk = c->k, drop = kk % 7, tol = (kk / 7) % 3, fill = (kk / 21) % 3, norm = (kk / 63) % 3, milu = (kk / 189) % 4;
    opt->ILU_DropRule = xs_ilu_drops[drop]; opt->ILU_DropTol = ILU_TOLS[tol]; opt->ILU_FillFactor = ILU_FILLS[fill]; opt->ILU_Norm = ILU_NORMS[norm]; opt->ILU_MILU = ILU_MILUS[milu];
    opt->RowPerm = rowperm ? LargeDiag_MC64 : NOROWPERM; opt->Trans = (trans_t[]){ NOTRANS, TRANS, CONJ }[c->trans];
    opt->ColPerm = (colperm_t[]){ NATURAL, MMD_ATA, MMD_AT_PLUS_A, COLAMD }[c->colperm]; opt->Equil = c->equil ? YES : NO; opt->DiagPivotThresh = c->u;
    opt->ConditionNumber = (c->pat & 1) ? YES : NO; opt->PivotGrowth = NO; opt->SymmetricMode = c->sym ? YES : NO;
}
int ilu_nodrop(int k)
{
    int drop = k % 7, tol = (k / 7) % 3, milu = (k / 189) % 4;
    return ((xs_ilu_drops[drop] == NODROP) || (ILU_TOLS[tol] == 0.0 && !(xs_ilu_drops[drop] & DROP_SECONDARY))) && milu == 0;
}
int o_ilu(const xs *s_, int trans, int equil, const dmat *A_in, const dmat *B_in, const dmat *B_after, int nodrop, int cond, vres *r, ilu_stats *st)
{
    const xs *s = s_; const vf_type *T = s->T; int n = s->n; long info = s->info;
    memset(st, 0, sizeof *st);
    if (info < 0 || info > n + 1) return wk_fail(r, "unexpected-info", "info=%ld from the ILU driver on a structurally nonsingular matrix (n=%d)", info, n);
    if (info == n + 1 && !cond) return wk_fail(r, "unexpected-info", "info=n+1 although ConditionNumber=NO");
    if (!is_perm(s->perm_r, n) || !is_perm(s->perm_c, n)) return wk_fail(r, "perm-not-bijection", "perm_r / perm_c is not a permutation (info=%ld)", info);
    verdict vd; memset(&vd, 0, sizeof vd);
    if (check_LU_structure(T, &s->L, &s->U, n, n, 1, &vd)) return wk_fail(r, "structure", "%s", vd.msg);
    const SCformat *Ls = s->L.Store; if (Ls->nsuper < n - 1) st->multi = 1;
    dmat Ld, Ud; if (expand_L(T, &s->L, &Ld) || expand_U(T, &s->L, &s->U, &Ud)) return wk_fail(r, "structure", "cannot expand factors");
    for (int j = 0; j < n; j++) { xc u = DM(&Ud, j, j); if (u == 0 || !isfinite((double)creall(u)) || !isfinite((double)cimagl(u))) return wk_fail(r, "bad-diagonal", "U(%d,%d) = %Lg%+Lgi (info=%ld)", j, j, creall(u), cimagl(u), info); }
    /* scaling of A and B as documented */
    char e = s->equed[0];
    if (o_scaling(s, A_in, B_in, trans, equil, r)) return 1;
    /* X is exactly the preconditioner solve defined by the returned factors: residual w.r.t. M = Pr' L U Pc' */
    int notran_eff = (trans == 0); if (s->stor == 1) notran_eff = !notran_eff;
    int rowequ = (e == 'R' || e == 'B'), colequ = (e == 'C' || e == 'B');
    dmat M, G, Xd, Xs; memset(&M, 0, sizeof M); M.m = M.n = n;
    for (int i = 0; i < n; i++) for (int j = 0; j < n; j++) { int pi = s->perm_r[i], pj = s->perm_c[j]; xc acc = 0; for (int k2 = 0; k2 <= pi && k2 <= pj; k2++) acc += DM(&Ld, pi, k2) * DM(&Ud, k2, pj); DM(&M, i, j) = acc; DZ(&M, i, j) = 1; }
    build_G(&Ld, &Ud, s->perm_r, s->perm_c, 0, &G);
    dn_to_dense(&s->X, &Xd); Xs = Xd;
    for (int j = 0; j < s->nrhs; j++) for (int i = 0; i < n; i++) { xr f = (notran_eff && colequ) ? T->rld(s->Cbuf, i) : (!notran_eff && rowequ) ? T->rld(s->Rbuf, i) : 1; DM(&Xs, i, j) = DM(&Xd, i, j) / f; }
    int op = (s->stor == 0) ? trans : (trans == 0 ? 1 : 0);      /* effective operation on the factored orientation */
    vres r2; memset(&r2, 0, sizeof r2);
    if (o_residual(T, &M, op, &G, B_after, &Xs, 16.0, &r2, &st->ratio_solve)) {
        if (s->stor == 1 && trans == 2 && T->cplx) st->quirk = 1;
        return wk_fail(r, "solve-not-factor-solve", "X is not the solve with the returned factors: %s", r2.msg);
    }
    /* dropping disabled and no pivot replaced: complete-LU guarantees */
    if (nodrop && info == 0) {
        dmat A1, F; xs_current_A(s, &A1); if (s->stor == 0) F = A1; else transpose_dm(&A1, &F);
        if (check_LU_identity(T, &F, &Ld, &Ud, s->perm_r, s->perm_c, 16.0, &vd)) return wk_fail(r, "nodrop-not-exact", "dropping disabled, no pivot replaced, but %s", vd.msg);
        st->ratio_id = vd.ratio; st->exact = 1;
    }
    { const NCformat *Us = s->U.Store; for (int j = 0; j < n; j++) { unsigned seen = 0; for (int_t k2 = Us->colptr[j]; k2 < Us->colptr[j + 1]; k2++) { if (seen >> Us->rowind[k2] & 1) { st->urep = 1; j = n; break; } seen |= 1u << Us->rowind[k2]; } } }
    return 0;
}
