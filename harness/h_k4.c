/* Engine E1: C18 (illegal arguments are rejected with the documented negative info, nothing modified, nothing retained).
 * The space is a table: routine x single-argument corruption x base call x type. */
#include "xs.h"

static const char *const CNT[] = { "gssv", "gssvx", "gsisx", "gstrs", "gsrfs", "gscon", "gsequ", "sp_trsv", "corruptions_rejected", "factored_base_calls", "sp_gemv", "reports_through_input_error", NULL };
static const char *const RAT[] = { NULL };

enum { R_GSSV, R_GSSVX, R_GSISX, R_GSTRS, R_GSRFS, R_GSCON, R_GSEQU, R_TRSV, R_GEMV, NROUT };
/* corruption of a SuperMatrix header */
enum { M_NONSQUARE, M_NEGATIVE, M_STYPE, M_DTYPE1, M_DTYPE2, M_DTYPE3, M_MTYPE, M_NONSQUARE_ROWS, M_NKINDS };
static void corrupt_matrix(SuperMatrix *M, int kind, const vf_type *T)
{
    static const Dtype_t dts[] = { SLU_S, SLU_D, SLU_C, SLU_Z };
    switch (kind) {
    case M_NONSQUARE: M->ncol = M->ncol + 1; break;
    case M_NONSQUARE_ROWS: M->nrow = M->nrow + 1; break;     /* one row more than columns: also more rows than the leading dimension of B and X */
    case M_NEGATIVE: M->nrow = -1; M->ncol = -1; break;
    case M_STYPE: M->Stype = (M->Stype == SLU_DN) ? SLU_NC : (M->Stype == SLU_SC ? SLU_NC : (M->Stype == SLU_NC ? SLU_SC : SLU_DN)); break;
    case M_DTYPE1: case M_DTYPE2: case M_DTYPE3: M->Dtype = dts[(T->id + 1 + (kind - M_DTYPE1)) % 4]; break;
    case M_MTYPE: M->Mtype = (M->Mtype == SLU_GE) ? SLU_SYL : SLU_GE; break;
    }
}
/* corruption of a dense right-hand side / solution */
enum { D_NCOLNEG, D_LDA, D_STYPE, D_DTYPE1, D_DTYPE2, D_DTYPE3, D_MTYPE, D_NKINDS };
static void corrupt_dense(SuperMatrix *M, int kind, const vf_type *T, int n)
{
    switch (kind) {
    case D_NCOLNEG: M->ncol = -1; break;
    case D_LDA: ((DNformat *)M->Store)->lda = n - 1; break;
    case D_STYPE: M->Stype = SLU_NC; break;
    case D_DTYPE1: case D_DTYPE2: case D_DTYPE3: corrupt_matrix(M, M_DTYPE1 + (kind - D_DTYPE1), T); break;
    case D_MTYPE: M->Mtype = SLU_TRU; break;
    }
}

/* the table: for each routine the list of (argument position, corruption code) */
typedef struct { int pos; int code; const char *what; } corr;
#define OPT_FACT_HI 100
#define OPT_FACT_LO 101
#define OPT_TRANS_HI 102
#define OPT_TRANS_LO 103
#define OPT_EQUIL_HI 104
#define OPT_EQUIL_LO 105
#define ARG_A 200          /* + M_* */
#define ARG_B 300          /* + D_* */
#define ARG_X 400          /* + D_* */
#define ARG_X_NCOL 450
#define ARG_L 500          /* + M_* */
#define ARG_U 600          /* + M_* */
#define ARG_LWORK 700
#define ARG_EQUED 701
#define ARG_R_ZERO 702
#define ARG_R_NEG 703
#define ARG_C_ZERO 704
#define ARG_C_NEG 705
#define ARG_TRANS_HI 706
#define ARG_TRANS_LO 707
#define ARG_NORM 708
#define ARG_UPLO 709
#define ARG_TRANSC 710
#define ARG_DIAG 711
#define ARG_FACT_NOT_DOFACT 712
#define ARG_INCX0 713
#define ARG_INCY0 714
#define MLIST(pos, base) { pos, base + M_NONSQUARE, "non-square" }, { pos, base + M_NONSQUARE_ROWS, "non-square (nrow = ncol+1)" }, { pos, base + M_NEGATIVE, "negative dimension" }, { pos, base + M_STYPE, "wrong Stype" }, { pos, base + M_DTYPE1, "wrong Dtype" }, { pos, base + M_DTYPE2, "wrong Dtype" }, { pos, base + M_DTYPE3, "wrong Dtype" }, { pos, base + M_MTYPE, "wrong Mtype" }
#define DLIST(pos, base) { pos, base + D_NCOLNEG, "ncol < 0" }, { pos, base + D_LDA, "lda < n" }, { pos, base + D_STYPE, "wrong Stype" }, { pos, base + D_DTYPE1, "wrong Dtype" }, { pos, base + D_DTYPE2, "wrong Dtype" }, { pos, base + D_DTYPE3, "wrong Dtype" }, { pos, base + D_MTYPE, "wrong Mtype" }
static const corr T_GSSV[] = { { 1, ARG_FACT_NOT_DOFACT, "Fact != DOFACT" }, { 1, OPT_FACT_HI, "Fact above enum" }, { 1, OPT_FACT_LO, "Fact below enum" }, MLIST(2, ARG_A), DLIST(7, ARG_B) };
static const corr T_GSSVX[] = { { 1, OPT_FACT_HI, "Fact above enum" }, { 1, OPT_FACT_LO, "Fact below enum" }, { 1, OPT_TRANS_HI, "Trans above enum" }, { 1, OPT_TRANS_LO, "Trans below enum" }, { 1, OPT_EQUIL_HI, "Equil above enum" }, { 1, OPT_EQUIL_LO, "Equil below enum" },
    MLIST(2, ARG_A), { 6, ARG_EQUED, "bad equed letter with FACTORED" }, { 7, ARG_R_ZERO, "R has a zero with FACTORED" }, { 7, ARG_R_NEG, "R has a negative entry with FACTORED" }, { 8, ARG_C_ZERO, "C has a zero with FACTORED" }, { 8, ARG_C_NEG, "C has a negative entry with FACTORED" },
    { 12, ARG_LWORK, "lwork < -1" }, DLIST(13, ARG_B), DLIST(14, ARG_X), { 14, ARG_X_NCOL, "X->ncol != B->ncol" } };
static const corr T_GSTRS[] = { { 1, ARG_TRANS_HI, "trans above enum" }, { 1, ARG_TRANS_LO, "trans below enum" }, MLIST(2, ARG_L), MLIST(3, ARG_U), { 6, ARG_B + D_LDA, "ldb < n" }, { 6, ARG_B + D_STYPE, "wrong Stype" }, { 6, ARG_B + D_DTYPE1, "wrong Dtype" }, { 6, ARG_B + D_DTYPE2, "wrong Dtype" }, { 6, ARG_B + D_DTYPE3, "wrong Dtype" }, { 6, ARG_B + D_MTYPE, "wrong Mtype" } };
static const corr T_GSRFS[] = { { 1, ARG_TRANS_HI, "trans above enum" }, { 1, ARG_TRANS_LO, "trans below enum" }, MLIST(2, ARG_A), MLIST(3, ARG_L), MLIST(4, ARG_U),
    { 10, ARG_B + D_LDA, "ldb < n" }, { 10, ARG_B + D_STYPE, "wrong Stype" }, { 10, ARG_B + D_DTYPE1, "wrong Dtype" }, { 10, ARG_B + D_MTYPE, "wrong Mtype" }, { 11, ARG_X + D_LDA, "ldx < n" }, { 11, ARG_X + D_STYPE, "wrong Stype" }, { 11, ARG_X + D_DTYPE1, "wrong Dtype" }, { 11, ARG_X + D_MTYPE, "wrong Mtype" } };
static const corr T_GSCON[] = { { 1, ARG_NORM, "bad norm letter" }, MLIST(2, ARG_L), MLIST(3, ARG_U) };
static const corr T_GSEQU[] = { { 1, ARG_A + M_NEGATIVE, "negative dimension" }, { 1, ARG_A + M_STYPE, "wrong Stype" }, { 1, ARG_A + M_DTYPE1, "wrong Dtype" }, { 1, ARG_A + M_DTYPE2, "wrong Dtype" }, { 1, ARG_A + M_DTYPE3, "wrong Dtype" }, { 1, ARG_A + M_MTYPE, "wrong Mtype" } };
static const corr T_TRSV[] = { { 1, ARG_UPLO, "bad uplo letter" }, { 2, ARG_TRANSC, "bad trans letter" }, { 3, ARG_DIAG, "bad diag letter" }, { 4, ARG_L + M_NONSQUARE, "L non-square" }, { 4, ARG_L + M_NONSQUARE_ROWS, "L non-square (rows)" }, { 4, ARG_L + M_NEGATIVE, "L negative" }, { 5, ARG_U + M_NONSQUARE, "U non-square" }, { 5, ARG_U + M_NONSQUARE_ROWS, "U non-square (rows)" }, { 5, ARG_U + M_NEGATIVE, "U negative" } };
static const corr T_GEMV[] = { { 1, ARG_TRANSC, "bad trans letter" }, { 3, ARG_A + M_NEGATIVE, "negative dimension" }, { 5, ARG_INCX0, "incx = 0" }, { 8, ARG_INCY0, "incy = 0" } };
#define TL(t) t, (int)(sizeof t / sizeof *t)
static const struct { const char *name; const corr *tab; int n; } ROUT[NROUT] = {
    { "gssv", TL(T_GSSV) }, { "gssvx", TL(T_GSSVX) }, { "gsisx", TL(T_GSSVX) }, { "gstrs", TL(T_GSTRS) }, { "gsrfs", TL(T_GSRFS) }, { "gscon", TL(T_GSCON) }, { "gsequ", TL(T_GSEQU) }, { "sp_trsv", TL(T_TRSV) }, { "sp_gemv", TL(T_GEMV) } };
static long rout_off[NROUT + 1];
static long total_corr(void) { long s = 0; for (int i = 0; i < NROUT; i++) { rout_off[i] = s; s += ROUT[i].n; } rout_off[NROUT] = s; return s; }

/* base calls: 3 patterns x {fresh, FACTORED (drivers only)} */
static void s18(const int *d, vcase *c)
{
    total_corr(); int rt = 0; while (d[0] >= rout_off[rt + 1]) rt++;
    c->aux = rt; c->k = d[0] - (int)rout_off[rt];
    static const int BP[] = { 2, 1, 8 }; c->n = c->m = 5; c->pat = base_pattern(5, BP[d[1]]); c->vals = 2; c->type = d[2]; c->fact = d[3] ? 3 : 0; c->equil = d[3]; c->stor = d[4];
    c->colperm = 3; c->nrhs = 2; c->rhs = 1; c->u = 1.0; c->permid = -1; c->aux3 = d[5];      /* aux3: which entry of R / C is corrupted (first, middle, last) */
}
static long sz_18(int tier) { return total_corr() * 3 * 4 * 2 * 2 * 3; }
static void dec_18(int tier, long idx, vcase *c) { int dims[6] = { (int)total_corr(), 3, 4, 2, 2, 3 }, dig[6]; vcase_init(c); wk_unrank(idx, dims, 6, dig); s18(dig, c); }
static void desc_18(int tier, char *b, size_t cap) { snprintf(b, cap, "{\"families\":[{\"name\":\"(routine, single-argument corruption) table x 3 base matrices x type4 x {fresh call, pre-factored call} x storage{NC,NR} x corrupted entry of R/C {first, middle, last}\",\"dims\":[%ld,3,4,2,2,3],\"size\":%ld}]}", total_corr(), total_corr() * 48); }

typedef struct { uint64_t a, b, x, perm, scal, lu, misc; long live; } snap;
static void take(const xs *s, snap *p, const char *ferr, const char *berr)
{
    memset(p, 0, sizeof *p);
    p->a = fnv(fnv(fnv(0, s->S.nzval, s->T->esz * s->S.nnz), s->S.ind, sizeof(int_t) * s->S.nnz), s->S.ptr, sizeof(int_t) * (s->n + 1));
    p->b = fnv(0, s->B.val, s->T->esz * (size_t)s->B.ld * s->nrhs); p->x = fnv(0, s->X.val, s->T->esz * (size_t)s->X.ld * s->nrhs);
    p->perm = fnv(fnv(fnv(0, s->perm_c, sizeof(int) * s->n), s->perm_r, sizeof(int) * s->n), s->etree, sizeof(int) * s->n);
    p->scal = fnv(fnv(0, s->Rbuf, s->T->rsz * s->n), s->Cbuf, s->T->rsz * s->n);   /* equed is a pure output of a fresh call and is reset before validation: not part of the claim */
    p->lu = s->have_LU ? hash_LU(s->T, &s->L, &s->U) : 0;
    p->misc = fnv(fnv(0, ferr, s->T->rsz * s->nrhs), berr, s->T->rsz * s->nrhs);
    p->live = vf_live_count();
}
static const char *diff(const snap *a, const snap *b)
{
    if (a->a != b->a) return "the matrix A"; if (a->b != b->b) return "the right-hand sides B"; if (a->x != b->x) return "the solution array X";
    if (a->perm != b->perm) return "perm_c/perm_r/etree"; if (a->scal != b->scal) return "R/C"; if (a->lu != b->lu) return "the factors L/U"; if (a->misc != b->misc) return "ferr/berr";
    if (a->live != b->live) return "(allocation retained / released)"; return NULL;
}

static void run_C18(const vcase *c, vres *r)
{
    const vf_type *T = vf_T(c->type); int n = c->n, rt = c->aux; const corr *K = &ROUT[rt].tab[c->k];
    int drivers = (rt == R_GSSVX || rt == R_GSISX);
    int needs_factored = (K->code == ARG_EQUED || (K->code >= ARG_R_ZERO && K->code <= ARG_C_NEG));
    int factored = drivers ? (c->fact == 3 || needs_factored) : 0;
    if (rt == R_GSSV && c->fact == 3) { r->status = 2; return; }       /* the simple driver has no pre-factored mode */
    if (!drivers && rt != R_GSSV && c->fact == 3) { r->status = 2; return; }
    if (rt != R_GSSV && !drivers && c->stor == 1) { r->status = 2; return; }   /* computational routines take column storage only */
    if (rt == R_GSISX && c->stor == 1 && factored) { r->status = 2; return; }
    WK_COUNT(rt == R_GEMV ? 10 : rt);
    xs s; xs_init(&s, T, n, c->pat, c->vals, (rt == R_GSSV || drivers) ? c->stor : 0); s.ilu = (rt == R_GSISX);
    dmat B; make_rhs(T, &s.A_orig, 0, 1, 2, &B); xs_set_rhs(&s, &B, 0, 0);
    superlu_options_t opt; vcase cc = *c; cc.fact = 0; cc.equil = c->equil; cc.trans = 0; cc.refine = 0;
    if (s.ilu) { ilu_set_default_options(&opt); opt.Equil = c->equil ? YES : NO; opt.RowPerm = NOROWPERM; opt.PrintStat = NO; } else xs_options(&cc, &opt, &s);
    s.equed[0] = 'N';
    /* a valid factorization first (needed by the computational routines and by FACTORED base calls) */
    int need_lu = factored || rt == R_GSTRS || rt == R_GSRFS || rt == R_GSCON || rt == R_TRSV;
    if (need_lu) {
        s.stor == 0 ? (void)0 : (void)0;
        if (c->vals == 2 && c->equil && drivers) { /* badly scaled values so that equed names R and C */
            xs_destroy(&s); xs_init(&s, T, n, c->pat, 7, c->stor); s.ilu = (rt == R_GSISX); make_rhs(T, &s.A_orig, 0, 1, 2, &B); xs_set_rhs(&s, &B, 0, 0);
        }
        memset(&s.Glu, 0, sizeof s.Glu); xs_call(&s, &opt);
        if (s.info != 0) { xs_destroy(&s); r->status = 2; return; }
        xs_set_rhs(&s, &B, 0, 0);
        if (factored) { WK_COUNT(9); if (needs_factored && s.equed[0] != 'B') { s.equed[0] = 'B'; for (int i = 0; i < n; i++) { T->rst(s.Rbuf, i, 1.0 + i); T->rst(s.Cbuf, i, 2.0 + i); } } }
    }
    if (factored) opt.Fact = FACTORED;
    char ferr[NMAX * 8], berr[NMAX * 8]; memcpy(ferr, s.ferr, sizeof ferr); memcpy(berr, s.berr, sizeof berr);
    SuperMatrix A = s.S.A, Bm = s.B.M, Xm = s.X.M, L = s.L, U = s.U; DNformat Bst = *(DNformat *)s.B.M.Store, Xst = *(DNformat *)s.X.M.Store; Bm.Store = &Bst; Xm.Store = &Xst;
    trans_t trans = NOTRANS; char norm[2] = "1", uplo[2] = "L", trc[2] = "N", diag[2] = "U"; long lwork = 0; int incx = 1, incy = 1;
    int code = K->code;
    /* apply the single corruption */
    if (code == OPT_FACT_HI) opt.Fact = (fact_t)4; else if (code == OPT_FACT_LO) opt.Fact = (fact_t)-1; else if (code == ARG_FACT_NOT_DOFACT) opt.Fact = SamePattern;
    else if (code == OPT_TRANS_HI) opt.Trans = (trans_t)3; else if (code == OPT_TRANS_LO) opt.Trans = (trans_t)-1;
    else if (code == OPT_EQUIL_HI) opt.Equil = (yes_no_t)2; else if (code == OPT_EQUIL_LO) opt.Equil = (yes_no_t)-1;
    else if (code >= ARG_A && code < ARG_A + M_NKINDS) corrupt_matrix(&A, code - ARG_A, T);
    else if (code >= ARG_B && code < ARG_B + D_NKINDS) corrupt_dense(&Bm, code - ARG_B, T, n);
    else if (code >= ARG_X && code < ARG_X + D_NKINDS) corrupt_dense(&Xm, code - ARG_X, T, n);
    else if (code == ARG_X_NCOL) Xm.ncol = Bm.ncol + 1;
    else if (code >= ARG_L && code < ARG_L + M_NKINDS) corrupt_matrix(&L, code - ARG_L, T);
    else if (code >= ARG_U && code < ARG_U + M_NKINDS) corrupt_matrix(&U, code - ARG_U, T);
    else if (code == ARG_LWORK) lwork = -2;
    else if (code == ARG_EQUED) s.equed[0] = 'X';
    else if (code == ARG_R_ZERO) T->rst(s.Rbuf, (int[]){ 0, n / 2, n - 1 }[c->aux3 % 3], 0.0); else if (code == ARG_R_NEG) T->rst(s.Rbuf, (int[]){ 0, n / 2, n - 1 }[c->aux3 % 3], -1.0);
    else if (code == ARG_C_ZERO) T->rst(s.Cbuf, (int[]){ 0, n / 2, n - 1 }[c->aux3 % 3], 0.0); else if (code == ARG_C_NEG) T->rst(s.Cbuf, (int[]){ 0, n / 2, n - 1 }[c->aux3 % 3], -2.0);
    else if (code == ARG_TRANS_HI) trans = (trans_t)3; else if (code == ARG_TRANS_LO) trans = (trans_t)-1;
    else if (code == ARG_INCX0) incx = 0; else if (code == ARG_INCY0) incy = 0;
    else if (code == ARG_NORM) norm[0] = 'X'; else if (code == ARG_UPLO) uplo[0] = 'X'; else if (code == ARG_TRANSC) trc[0] = 'X'; else if (code == ARG_DIAG) diag[0] = 'X';
    snap before, after; take(&s, &before, ferr, berr);
    SuperLUStat_t st; StatInit(&st); long info = -999; int info_i = -999; int_t info_t = -999; char rc[8], xb[NMAX * 16]; memset(xb, 0, sizeof xb);
    long live0 = vf_live_count(); int ie0 = vf_ie_count; char gx[NMAX * 16], gy[NMAX * 16], gy0[NMAX * 16]; memset(gx, 0x3c, sizeof gx); memset(gy, 0x3d, sizeof gy); memcpy(gy0, gy, sizeof gy);
    switch (rt) {
    case R_GSSV: T->gssv(&opt, &A, s.perm_c, s.perm_r, &s.L, &s.U, &Bm, &st, &info_t); info = (long)info_t; break;
    case R_GSSVX: T->gssvx(&opt, &A, s.perm_c, s.perm_r, s.etree, s.equed, s.Rbuf, s.Cbuf, &L, &U, NULL, (int_t)lwork, &Bm, &Xm, s.rpg, s.rcond, ferr, berr, &s.Glu, &s.mu, &st, &info_t); info = (long)info_t; break;
    case R_GSISX: T->gsisx(&opt, &A, s.perm_c, s.perm_r, s.etree, s.equed, s.Rbuf, s.Cbuf, &L, &U, NULL, (int_t)lwork, &Bm, &Xm, s.rpg, s.rcond, &s.Glu, &s.mu, &st, &info_t); info = (long)info_t; break;
    case R_GSTRS: T->gstrs(trans, &L, &U, s.perm_c, s.perm_r, &Bm, &st, &info_i); info = info_i; break;
    case R_GSRFS: T->gsrfs(trans, &A, &L, &U, s.perm_c, s.perm_r, s.equed, s.Rbuf, s.Cbuf, &Bm, &Xm, ferr, berr, &st, &info_i); info = info_i; break;
    case R_GSCON: T->gscon(norm, &L, &U, 1.0, rc, &st, &info_i); info = info_i; break;
    case R_GSEQU: { char a1[8], a2[8], a3[8]; T->gsequ(&A, s.Rbuf, s.Cbuf, a1, a2, a3, &info_i); info = info_i; } break;
    case R_TRSV: T->sp_trsv(uplo, trc, diag, &L, &U, xb, &st, &info_i); info = info_i; break;
    case R_GEMV: T->sp_gemv(trc, 2.0, &A, gx, incx, 3.0, gy, incy); info = (vf_ie_count > ie0) ? -vf_ie_last : 0;      /* no info argument: the report through input_error is the observable */
        if (memcmp(gy, gy0, sizeof gy)) info = -998; break;
    }
    StatFree(&st);
    (void)live0;
    take(&s, &after, ferr, berr);
    r->nontrivial = 1; r->outcome = (uint64_t)(info + 1000) * 131 + rt;
    if (rt == R_GEMV && info == -998) wk_fail(r, "modified-on-reject", "%csp_gemv with %s wrote to y", T->letter, K->what);
    else if (info == -K->pos && vf_ie_count == ie0 + 1 && vf_ie_last == K->pos) WK_COUNT(11);   /* counted, not demanded: the property speaks about info */
    if (r->status == 1) ; else
    if (info != -K->pos) wk_fail(r, "wrong-info", "%c%s with %s (argument %d): info=%ld, documented %d", T->letter, ROUT[rt].name, K->what, K->pos, info, -K->pos);
    else { const char *d = diff(&before, &after); if (d) wk_fail(r, "modified-on-reject", "%c%s rejected %s (info=%ld) but modified %s", T->letter, ROUT[rt].name, K->what, info, d); else WK_COUNT(8); }
    if (r->status == 1) { char sg[96]; snprintf(sg, sizeof sg, "%.30s:%c%s:arg%d:code%d%s", r->sig, T->letter, ROUT[rt].name, K->pos, K->code, factored ? ":factored" : ""); snprintf(r->sig, sizeof r->sig, "%s", sg); }
    /* restore what was deliberately corrupted in place, then release */
    if (code == ARG_EQUED) s.equed[0] = 'N';
    if (info >= 0 && (rt == R_GSSV) && !s.have_LU && s.L.Store) { s.have_LU = 1; }
    xs_destroy(&s);
}
static const char RULE18[] = "the space is the table (routine, single-argument corruption) x 3 base matrices x 4 types x {fresh, pre-factored} x {column, row storage}; every entry is one real call; non-trivial = every executed entry";
const vf_check vf_checks[] = { { "C18", sz_18, dec_18, run_C18, CNT, RAT, RULE18, desc_18 } };
const int vf_nchecks = 1;
int main(int argc, char **argv) { return wk_main(argc, argv); }
