/* Common declarations of the verification harness. */
#ifndef VF_H
#define VF_H
#include <stdio.h>
#include <stdlib.h>
#include <string.h>
#include <stdint.h>
#include <math.h>
#include <complex.h>
#undef complex
#include <setjmp.h>
#include "superlu_config.h"
#include "supermatrix.h"
#include "slu_util.h"

/* ------------------------------------------------------------------ runtime */
typedef struct {
    void *p; size_t size; long serial; const char *file; int line; const char *func; int tid;
} vf_block;

extern int  vf_tune[8];            /* sp_ienv(1..7) */
extern int  vf_fill_byte;          /* -1: none, else fresh blocks are filled with this byte */
extern long vf_alloc_serial;       /* number of vf_malloc calls so far */
extern long vf_n_free_unknown;     /* frees of pointers the ledger does not own */
extern long vf_n_free_null;
extern char vf_last_bad_free[256];
extern long vf_n_overrun; extern char vf_last_overrun[256];   /* writes past the end of a ledger block (red zones) */
long vf_check_redzones(void);
extern int  vf_abort_armed;        /* if set, vf_abort longjmps to vf_abort_jmp */
extern jmp_buf vf_abort_jmp;
extern char vf_abort_msg[300];
/* fault plan: fail the k-th (1-based) allocation whose func contains vf_fail_func (NULL = any) */
extern long vf_fail_k;             /* 0 = off */
extern const char *vf_fail_func;
extern long vf_fail_seen;          /* matching requests seen since arm */
extern long vf_fail_fired;
extern int  vf_fail_sticky;        /* if set, every matching request from the k-th on fails (memory stays exhausted) */
extern long vf_expand_requests;    /* allocations made by *expand / *LUMemInit growth */

void  vf_reset_case(void);         /* clear plans + counters (not the ledger) */
long  vf_live_count(void);
long  vf_block_size(const void *p);   /* size the library asked for when it obtained the live block starting at p, -1 if p is not such a block */
size_t vf_live_bytes(void);
int   vf_live_list(vf_block *out, int max);
void  vf_release_all(void);        /* free every live block (after abort / crash outcome) */
int   vf_owns(const void *p);
void  vf_set_defaults_tune(void);  /* shipped sp_ienv defaults */
void  vf_install_crash_handlers(void (*report)(int sig, const char *where));
const char *vf_crash_where(void);  /* symbolised top frames of the faulting stack */
void  vf_watchdog(int seconds);    /* SIGALRM based */
int   slu_default_sp_ienv(int);
extern __thread int vf_ie_count, vf_ie_last; extern __thread char vf_ie_name[16];   /* input_error reports: how many, last parameter number, last routine name */
extern volatile long *vf_progress; /* shared page: [0]=current case index, [1]=phase */

/* --------------------------------------------------------------- dense model */
#define NMAX 16
typedef long double _Complex xc;
typedef long double xr;
typedef struct { int m, n; xc a[NMAX*NMAX]; unsigned char nz[NMAX*NMAX]; } dmat;
#define DM(A,i,j) ((A)->a[(i)+(j)*NMAX])
#define DZ(A,i,j) ((A)->nz[(i)+(j)*NMAX])

/* -------------------------------------------------------------------- types */
enum { TS=0, TD=1, TC=2, TZ=3 };
typedef struct vf_type {
    int id; char letter; Dtype_t dtype; int cplx; size_t esz, rsz;
    double eps, sfmin;
    xc   (*ld)(const void *a, long i);
    void (*st)(void *a, long i, double _Complex v);
    xr   (*rld)(const void *a, long i);
    void (*rst)(void *a, long i, double v);
    /* library entry points with uniform signatures (typed arrays as void*) */
    void (*Create_CompCol)(SuperMatrix*, int, int, int_t, void*, int_t*, int_t*, Stype_t, Dtype_t, Mtype_t);
    void (*Create_CompRow)(SuperMatrix*, int, int, int_t, void*, int_t*, int_t*, Stype_t, Dtype_t, Mtype_t);
    void (*Create_Dense)(SuperMatrix*, int, int, void*, int, Stype_t, Dtype_t, Mtype_t);
    void (*gssv)(superlu_options_t*, SuperMatrix*, int*, int*, SuperMatrix*, SuperMatrix*, SuperMatrix*, SuperLUStat_t*, int_t*);
    void (*gssvx)(superlu_options_t*, SuperMatrix*, int*, int*, int*, char*, void*, void*, SuperMatrix*, SuperMatrix*,
                  void*, int_t, SuperMatrix*, SuperMatrix*, void*, void*, void*, void*, GlobalLU_t*, mem_usage_t*, SuperLUStat_t*, int_t*);
    void (*gsisx)(superlu_options_t*, SuperMatrix*, int*, int*, int*, char*, void*, void*, SuperMatrix*, SuperMatrix*,
                  void*, int_t, SuperMatrix*, SuperMatrix*, void*, void*, GlobalLU_t*, mem_usage_t*, SuperLUStat_t*, int_t*);
    void (*gstrf)(superlu_options_t*, SuperMatrix*, int, int, int*, void*, int_t, int*, int*, SuperMatrix*, SuperMatrix*, GlobalLU_t*, SuperLUStat_t*, int_t*);
    void (*gsitrf)(superlu_options_t*, SuperMatrix*, int, int, int*, void*, int_t, int*, int*, SuperMatrix*, SuperMatrix*, GlobalLU_t*, SuperLUStat_t*, int_t*);
    void (*gstrs)(trans_t, SuperMatrix*, SuperMatrix*, const int*, const int*, SuperMatrix*, SuperLUStat_t*, int*);
    void (*gscon)(char*, SuperMatrix*, SuperMatrix*, double anorm, void *rcond, SuperLUStat_t*, int*);
    void (*gsrfs)(trans_t, SuperMatrix*, SuperMatrix*, SuperMatrix*, int*, int*, char*, void*, void*, SuperMatrix*, SuperMatrix*, void*, void*, SuperLUStat_t*, int*);
    void (*gsequ)(SuperMatrix*, void *r, void *c, void *rowcnd, void *colcnd, void *amax, int *info);
    void (*laqgs)(SuperMatrix*, void *r, void *c, double rowcnd, double colcnd, double amax, char *equed);
    double (*PivotGrowth)(int, SuperMatrix*, int*, SuperMatrix*, SuperMatrix*);
    double (*langs)(char*, SuperMatrix*);
    int  (*sp_trsv)(char*, char*, char*, SuperMatrix*, SuperMatrix*, void*, SuperLUStat_t*, int*);
    int  (*sp_gemv)(char*, double _Complex alpha, SuperMatrix*, void *x, int incx, double _Complex beta, void *y, int incy);
    int  (*sp_gemm)(char*, char*, int, int, int, double _Complex alpha, SuperMatrix*, void *b, int ldb, double _Complex beta, void *c, int ldc);
    int  (*ldperm)(int, int, int_t, int_t*, int_t*, void *nzval, int *perm, double *u, double *v);
    void (*readhb)(FILE*, int*, int*, int_t*, void**, int_t**, int_t**);
    void (*readrb)(int*, int*, int_t*, void**, int_t**, int_t**);
    void (*readMM)(FILE*, int*, int*, int_t*, void**, int_t**, int_t**);
    void (*readtriple)(int*, int*, int_t*, void**, int_t**, int_t**);
    int  (*QuerySpace)(SuperMatrix*, SuperMatrix*, mem_usage_t*);
    int  (*ilu_QuerySpace)(SuperMatrix*, SuperMatrix*, mem_usage_t*);
    void (*fortran_gssv)(int *iopt, int *n, int_t *nnz, int *nrhs, void *values, int_t *rowind, int_t *colptr,
                         void *b, int *ldb, int64_t *f_factors, int_t *info);
    void (*CompRow_to_CompCol)(int m, int n, int_t nnz, void *a, int_t *colind, int_t *rowptr, void **at, int_t **rowind, int_t **colptr);
    void (*Copy_CompCol)(SuperMatrix *A, SuperMatrix *B);
    void (*Copy_Dense)(int m, int n, void *X, int ldx, void *Y, int ldy);
} vf_type;
const vf_type *vf_T(int id);

/* ---------------------------------------------------------------- case record */
typedef struct {
    int prop, fam, type, m, n;
    uint64_t pat;
    int gen;                 /* 0: pat is a bit mask (bit i*n+j); 1: structured base (pat&255) with one deviation (pat>>8); 2: pseudo-random pattern with seed pat */
    int vals, colperm, permid, sym, stor, nrhs, ldbx, trans, equil, refine, rhs, fillb;
    int cond, growth, fact, lworkmode, align, fest, k, aux, aux2, aux3;
    long lwork;
    double u;
    int tune[8];
    char variant[8];
    long idx;   /* enumeration index (informational) */
} vcase;
void vcase_init(vcase *c);
int  vcase_format(const vcase *c, char *buf, size_t cap);
int  vcase_parse(vcase *c, const char *line);

/* --------------------------------------------------------- enumeration lists */
extern const int vf_tunings[][8];  extern const int vf_ntunings;
int  pat_struct_rank(int m, int n, uint64_t pat);
extern int vf_pat_gen;                              /* pattern generator of the running case (set by the worker from vcase.gen) */
int  vf_pat_bit(int m, int n, uint64_t pat, int i, int j);
int  base_has(int n, int which, int i, int j);
uint64_t base_pattern(int n, int which);        /* BASE(n) family */
int  n_base_patterns(void);
uint64_t dev1_pattern(int n, uint64_t base, int k); /* k in [0, n*n]: k==0 base, else flip bit k-1 */
void perm_unrank(int n, int r, int *perm);      /* r-th permutation in lexicographic order */

/* value schemes: fill dense model entries for pattern */
#define NVALS 13
void make_values(const vf_type *T, int m, int n, uint64_t pat, int scheme, dmat *A);
/* right-hand sides */
void make_rhs(const vf_type *T, const dmat *A, int trans, int scheme, int nrhs, dmat *B);

/* -------------------------------------------------------------- lib objects */
typedef struct {
    const vf_type *T; int m, n; int_t nnz; int stor;
    void *nzval; int_t *ind; int_t *ptr; SuperMatrix A;
} vf_sparse;
/* build SuperMatrix (SLU_NC or SLU_NR) from dense model; values are rounded to the
   type and the dense model is overwritten with the rounded values */
void sp_from_dense(vf_sparse *S, const vf_type *T, dmat *A, int stor);
void sp_to_dense(const vf_sparse *S, dmat *A);   /* reads current stored values */
void sp_destroy(vf_sparse *S);
typedef struct { const vf_type *T; int m, nrhs, ld; void *val; SuperMatrix M; } vf_dense;
void dn_from_dense(vf_dense *D, const vf_type *T, const dmat *B, int ld, double padval);
void dn_to_dense(const vf_dense *D, dmat *B);
void dn_destroy(vf_dense *D);

/* expand factors into dense model; returns 0 if structure is sane enough to expand */
int  expand_L(const vf_type *T, const SuperMatrix *L, dmat *Ld);
int  expand_U(const vf_type *T, const SuperMatrix *L, const SuperMatrix *U, dmat *Ud);

/* ------------------------------------------------------------------ oracles */
typedef struct { char msg[400]; double ratio; } verdict;
/* C03 */
int  check_LU_structure(const vf_type *T, const SuperMatrix *L, const SuperMatrix *U, int m, int n, int ilu, verdict *v);
/* C02: |Pr A Pc - L U| <= c n eps |L||U|; returns 0 ok */
int  check_LU_identity(const vf_type *T, const dmat *A, const dmat *Ld, const dmat *Ud, const int *perm_r, const int *perm_c, double c, verdict *v);
int  is_perm(const int *p, int n);
xr   xmag(const vf_type *T, xc v);     /* |.| for real, |re|+|im| for complex (library's measure) */
uint64_t fnv(uint64_t h, const void *p, size_t n);
uint64_t hash_factors(const SuperMatrix *L, const SuperMatrix *U, const vf_type *T);
int  exact_singular(const dmat *A);    /* 1 if exactly singular by exact rational elimination, 0 nonsingular, -1 unknown */

/* ------------------------------------------------------- worker framework */
typedef struct {
    long evaluations, nontrivial, skipped, violations, known, crashes;
    double max_ratio[8];
    long counters[32];
} vf_stats;
#endif
