/* Expert-driver session object: everything xgssvx / xgsisx carries between calls. */
#ifndef XS_H
#define XS_H
#include "e1.h"

typedef struct {
    const vf_type *T; int n, stor;
    vf_sparse S;                 /* caller's matrix (modified in place by equilibration) */
    dmat A_orig;                 /* values as first created (rounded to type) */
    int perm_c[NMAX], perm_r[NMAX], etree[NMAX];
    char equed[8];
    char Rbuf[NMAX * 8], Cbuf[NMAX * 8], ferr[NMAX * 8], berr[NMAX * 8];   /* typed real arrays */
    char rpg[8], rcond[8];
    SuperMatrix L, U; int have_LU;
    GlobalLU_t Glu; mem_usage_t mu; SuperLUStat_t stat; int stat_live;
    void *work; long lwork;      /* caller workspace (NULL, 0 = library allocation) */
    long lu_lwork;               /* storage mode the live factors were created with */
    vf_dense B, X; int nrhs;
    long info;
    int ilu;
} xs;

void xs_init(xs *s, const vf_type *T, int n, uint64_t pat, int vals, int stor);
void xs_set_rhs(xs *s, const dmat *B, int ldbx, int ldxx);     /* (re)creates B and X */
void xs_call(xs *s, superlu_options_t *opt);                   /* xgssvx, or xgsisx when s->ilu */
void xs_free_LU(xs *s);
void xs_destroy(xs *s);
double xs_real(const xs *s, const char *buf, int i);           /* typed real -> double */
void xs_current_A(const xs *s, dmat *A);                       /* caller-orientation dense view of the stored values */
void xs_options(const vcase *c, superlu_options_t *o, xs *s);

/* dense helpers */
int  dense_inverse(int n, const dmat *A, dmat *Ainv);          /* 0 ok, 1 singular */
xr   dense_norm(const dmat *A, int inf);                       /* 1-norm or inf-norm (true modulus) */
void transpose_dm(const dmat *A, dmat *At);

/* elimination tree from its definition: parent[k] = min{ i > k : L(i,k) != 0 } in the symbolic Cholesky factor of (F Pc)'(F Pc) (sym=0) or of Pc'(F+F')Pc (sym=1); F = factored orientation */
void ref_etree(const dmat *F, const int *perm_c, int n, int sym, int *parent);
/* bookkeeping of the factor storage after a successful factorization: the capacities recorded in Glu (nzlumax, nzumax, nzlmax) are backed by the blocks the
   arrays live in (library allocation: ledger sizes; caller workspace: inside [work, work+lwork), in order, not overlapping) and the workspace stack counters agree */
int  o_glu_storage(const xs *s, vres *r);
/* oracles on a finished call */
int  o_scaling(const xs *s, const dmat *A_in, const dmat *B_in, int trans, int equil, vres *r);
int  o_solution(const xs *s, int trans, const dmat *Bafter, vres *r, double *ratio, int *nr_conj_quirk);

/* incomplete LU: options from the digits of c->k (drop(7) tol(3) fill(3) norm(3) milu(4)), and the judge of one finished xgsisx call */
extern const int xs_ilu_drops[7];
void xs_ilu_options(const vcase *c, int rowperm, superlu_options_t *opt);
int  ilu_nodrop(int k);                                       /* dropping disabled and plain ILU: complete-LU guarantees apply when no pivot was replaced */
typedef struct { int multi, urep, exact, quirk; double ratio_solve, ratio_id; } ilu_stats;
int  o_ilu(const xs *s, int trans, int equil, const dmat *A_in, const dmat *B_in, const dmat *B_after, int nodrop, int cond, vres *r, ilu_stats *st);
#endif
