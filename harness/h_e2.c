/* Engine E2, environment / fault enumeration: C07 (storage provenance never changes the answer) and
 * C08 (caller workspace never overrun; shortage, size queries and failed growth are reported). */
#define _GNU_SOURCE
#include "xs.h"
#include <sys/mman.h>
#include <unistd.h>

static const char *const CNT[] = { "ws_success", "ws_shortage_initial", "ws_shortage_midfactor", "ws_singular", "lib_success", "fault_reported", "fault_not_reached",
    "query_checked", "expansions_0", "expansions_1", "expansions_2", "expansions_ge3", "ilu_cases", "scenario_identical", "scenario_insufficient_skipped", "align4", "exp_LUSUP", "exp_UCOL", "exp_LSUB", "exp_USUB",
    "query_sideeffect_equil", "ilu_capacity_sweep", "ilu_capacity_sweep_in_workspace", NULL };
enum { C_WOK, C_WINIT, C_WMID, C_WSING, C_LOK, C_FREP, C_FNOT, C_QUERY, C_E0, C_E1, C_E2, C_E3, C_ILU, C_IDENT, C_INSUF, C_AL4, C_XL, C_XU, C_XLS, C_XUS, C_QSIDE, C_CAPSWEEP, C_CAPWS };
static const char *const RAT[] = { NULL };

/* ------------------------------------------------------------------ arena */
#define ARENA (2u << 20)
static unsigned char *arena = NULL; static long pagesz;
static void arena_init(void)
{
    if (arena) return;
    pagesz = sysconf(_SC_PAGESIZE);
    arena = mmap(NULL, ARENA + 2 * pagesz, PROT_READ | PROT_WRITE, MAP_PRIVATE | MAP_ANONYMOUS, -1, 0);
    if (arena == MAP_FAILED) { perror("mmap arena"); _exit(96); }
    mprotect(arena + pagesz + ARENA, pagesz, PROT_NONE);     /* guard page right after the arena */
    arena += pagesz;
}
/* place a workspace of lwork bytes so that it ends <= 7 bytes before the guard page with work % 8 == align */
static unsigned char *ws_place(long lwork, int align, int prefill, int *slack)
{
    arena_init();
    uintptr_t end = (uintptr_t)(arena + ARENA);
    int s = (int)((end - (uintptr_t)lwork - (uintptr_t)align) & 7);
    unsigned char *w = (unsigned char *)(end - s - lwork);
    memset(w - 64, 0xC7, 64); memset(w, prefill, lwork); memset(w + lwork, 0xC7, s);
    *slack = s; return w;
}
static int ws_canaries_ok(const unsigned char *w, long lwork, int slack)
{
    for (int i = 1; i <= 64; i++) if (w[-i] != 0xC7) return 0;
    for (int i = 0; i < slack; i++) if (w[lwork + i] != 0xC7) return 0;
    return 1;
}

/* ---------------------------------------------------------------- bases */
static const int TUNE_N8[4];
static const int TUNE_E2[] = { 3, 9, 5, 4, 10, 2, 6, 7 };      /* small panels / supernodes: several panels and expansions on 6x6 */
static const int VALS_E2[] = { 1, 3, 2 };
static const int CP_E2[] = { 0, 3, 1, 2 };
static const int FEST[] = { 1, 2, 3, 5, 30 };
static void set_base(vcase *c, int base, int dev, int vals, int cp, int tune, int type, int ilu)
{
    c->n = c->m = 6; c->pat = dev1_pattern(6, base_pattern(6, base), dev); c->vals = VALS_E2[vals]; c->colperm = CP_E2[cp]; set_tune(c, TUNE_E2[tune]); c->type = type;
    c->aux = ilu; c->u = 1.0; c->nrhs = 1; c->rhs = 1; c->permid = -1; c->trans = 0; c->equil = 0;
}
/* quick length list: every byte 1..64, then every multiple of 4 up to LMAX */
#define LMAX_Q 3072
#define NLEN_Q (64 + (LMAX_Q - 64) / 4)
static long len_quick(int k) { return k < 64 ? k + 1 : 64 + 4 * (long)(k - 64 + 1) + ((k - 64) & 3); }   /* above 64: step 4, cycling through all residues mod 4 */
#define LMAX_T 3584

/* C08 families */
static void set08W(const int *d, vcase *c)     /* workspace sweep */
{ set_base(c, d[0], 0, d[1], d[2], d[3], d[4], d[5]); c->lworkmode = 1; c->lwork = wk_tier ? d[6] + 1 : len_quick(d[6]); c->align = d[7] * 4; c->fest = 1; c->tune[6] = 1; c->aux2 = 0xA5; }
static void set08W8(const int *d, vcase *c)    /* 8x8, natural order: every array kind expands inside the workspace */
{ set_base(c, d[0], 0, d[1], 0, 0, d[3], 0); c->n = c->m = 8; c->pat = base_pattern(8, d[0]); set_tune(c, TUNE_N8[d[2]]); c->lworkmode = 1; c->lwork = len_quick(64 + d[4]); c->align = d[5] * 4; c->fest = 1; c->tune[6] = 1; c->aux2 = 0xA5; c->aux = d[6] * 2; }
static void set08Wd(const int *d, vcase *c)    /* deviation-1 patterns at the lengths around typical requirements: multiples of 4 only */
{ set_base(c, d[0], d[1], 0, 0, d[2], d[3], 0); c->lworkmode = 1; c->lwork = 4 * (long)(d[4] + 1) * 8; c->align = d[5] * 4; c->fest = 1; c->tune[6] = 1; c->aux2 = 0x00; }
static void set08Q(const int *d, vcase *c)     /* size query */
{ set_base(c, d[0], d[1], d[2], 1, d[3], d[4], d[5]); c->lworkmode = 2; c->lwork = -1; c->equil = d[6]; c->fact = d[7]; c->fest = FEST[d[8]]; c->tune[6] = c->fest; if (d[6]) c->vals = 4; c->aux2 = (d[1] + d[3]) & 1; }   /* aux2: the ILU driver's row permutation (none / MC64) */
static void set08K(const int *d, vcase *c)     /* k-th growth request fails under library allocation */
{ set_base(c, d[0], d[1], d[2], d[3], d[4], d[5], d[6]); c->lworkmode = 3; c->k = d[7] + 1; c->fest = 1; c->tune[6] = 1; }
static void set08W12(const int *d, vcase *c)   /* 12x12, relaxed supernodes of up to 10 columns: one supernode block can exceed a (reduced) growth step of the workspace allocator */
{
    set_base(c, 0, 0, d[1], 0, 0, d[3], 0); c->n = c->m = 12;
    if (d[0] < 4) { c->gen = 1; c->pat = (uint64_t)(int[]){ 9, 10, 4, 7 }[d[0]]; } else { c->gen = 2; c->pat = (uint64_t)(600 + d[0]); }
    set_tune(c, (int[]){ 0, 9, 12 }[d[2]]); c->colperm = (d[0] & 1) ? 3 : 0; c->lworkmode = 1; c->lwork = 4 * (long)(d[4] + 1); c->align = d[5] * 4; c->fest = 1; c->tune[6] = 1; c->aux2 = 0xA5; c->aux = d[6] * 2;
}
static void set08K8(const int *d, vcase *c)    /* k-th growth request fails, 8x8 natural order: U outgrows nnz(A), so the UCOL and USUB requests are among the failing ones */
{ set_base(c, d[0], 0, d[1], 0, 0, d[3], 0); c->n = c->m = 8; c->pat = dev1_pattern(8, base_pattern(8, d[0]), d[5]); set_tune(c, TUNE_N8[d[2]]); c->lworkmode = 3; c->k = d[4] + 1; c->fest = 1; c->tune[6] = 1; c->aux = d[6] * 2; }
static const family F08Q[] = {
    { "workspace sweep 12x12 (4 block/grid patterns + 4 generated patterns) x vals2 x tune{default,(3,8,8..),(8,4,16..)} x type4 x every multiple of 4 up to 16 KiB x align{0} x {LU, ILU with fill factor 1}", 7, { 8, 2, 3, 4, 4096, 1, 2 }, set08W12 },
    { "workspace sweep 8x8: BASE(8) NATURAL x vals2 x tune4 x type4 x lengths{68.. step 4 cycling residues, 1000 lengths} x align2 x {LU, ILU with fill factor 1}", 7, { 9, 2, 4, 4, 1000, 2, 2 }, set08W8 },
    { "workspace sweep: BASE(6) x vals2 x colperm2 x tune3 x type4 x {LU,ILU} x lengths{1..64, then step 4 up to 3072 cycling through the residues mod 4} x align{0,4}", 8, { 9, 2, 2, 3, 4, 2, NLEN_Q, 2 }, set08W },
    { "size query lwork=-1: BASE(6) x dev{0..8} x vals2 x tune3 x type4 x {LU,ILU} x Equil2 x Fact{DOFACT,SamePattern,SamePattern_SameRowPerm} x fill5", 9, { 9, 9, 2, 3, 4, 2, 2, 3, 5 }, set08Q },
    { "k-th growth request fails (library allocation, fill estimate 1): DEV_1(BASE(6)) x vals2 x colperm2 x tune3 x type4 x {LU,ILU} x k{1..14}", 8, { 9, 37, 2, 2, 3, 4, 2, 14 }, set08K },
    { "k-th growth request fails, 8x8 NATURAL order (all four array kinds grow): DEV_1(BASE(8)) first 3 deviations x vals2 x tune4 x type4 x k{1..24} x {LU, ILU with fill factor 1}", 7, { 9, 2, 4, 4, 24, 3, 2 }, set08K8 },
};
static const family F08T[] = {
    { "workspace sweep 12x12 (4 block/grid patterns + 12 generated patterns) x vals2 x tune{default,(3,8,8..),(8,4,16..)} x type4 x every multiple of 4 up to 16 KiB x align{0} x {LU, ILU with fill factor 1}", 7, { 16, 2, 3, 4, 4096, 1, 2 }, set08W12 },
    { "workspace sweep 8x8: BASE(8) NATURAL x vals2 x tune4 x type4 x lengths{68.. step 4 cycling residues, 1400 lengths} x align2 x {LU, ILU with fill factor 1}", 7, { 9, 2, 4, 4, 1400, 2, 2 }, set08W8 },
    { "workspace sweep: BASE(6) x vals2 x colperm4 x tune3 x type4 x {LU,ILU} x every byte length 1..3584 x align{0,4}", 8, { 9, 2, 4, 3, 4, 2, LMAX_T, 2 }, set08W },
    { "workspace sweep on DEV_1(BASE(6)) x tune3 x type4 x lengths{32..4096 step 32} x align2", 6, { 9, 37, 3, 4, 128, 2 }, set08Wd },
    { "size query lwork=-1: BASE(6) x dev{0..36} x vals3 x tune8 x type4 x {LU,ILU} x Equil2 x Fact3 x fill5", 9, { 9, 37, 3, 8, 4, 2, 2, 3, 5 }, set08Q },
    { "k-th growth request fails: DEV_1(BASE(6)) x vals3 x colperm4 x tune8 x type4 x {LU,ILU} x k{1..20}", 8, { 9, 37, 3, 4, 8, 4, 2, 20 }, set08K },
    { "k-th growth request fails, 8x8 NATURAL order (all four array kinds grow): DEV_1(BASE(8)) first 16 deviations x vals2 x tune4 x type4 x k{1..24} x {LU, ILU with fill factor 1}", 7, { 9, 2, 4, 4, 24, 16, 2 }, set08K8 },
};
#define NF(F) ((int)(sizeof F / sizeof *F))
static long sz_08(int tier) { return tier ? fam_total(F08T, NF(F08T)) : fam_total(F08Q, NF(F08Q)); }
static void dec_08(int tier, long idx, vcase *c) { wk_tier = tier; if (tier) fam_decode(F08T, NF(F08T), idx, c); else fam_decode(F08Q, NF(F08Q), idx, c); }
static void desc_08(int tier, char *b, size_t cap) { if (tier) fam_describe(F08T, NF(F08T), b, cap); else fam_describe(F08Q, NF(F08Q), b, cap); }

/* ---------------------------------------------------------------- runner */
typedef struct { long info; uint64_t h; int perm_r[NMAX], perm_c[NMAX], etree[NMAX]; int expansions; long nnzL, nnzU; float for_lu, total_needed; int ok; dmat X; int glu_exp; } outcome;

static void ilu_opts(superlu_options_t *o) { ilu_set_default_options(o); o->PrintStat = NO; }

static void run_once(const vcase *c, void *work, long lwork, outcome *O, xs *keep, vres *r)
{
    const vf_type *T = vf_T(c->type); xs s_, *s = keep ? keep : &s_;
    memset(O, 0, sizeof *O);
    xs_init(s, T, c->n, c->pat, c->vals, c->stor); s->ilu = c->aux;
    dmat B; make_rhs(T, &s->A_orig, 0, c->rhs, 1, &B); xs_set_rhs(s, &B, 0, 0);
    superlu_options_t opt;
    if (c->aux) { ilu_opts(&opt); opt.ColPerm = (colperm_t[]){ NATURAL, MMD_ATA, MMD_AT_PLUS_A, COLAMD, MY_PERMC }[c->colperm]; opt.DiagPivotThresh = c->u; opt.Equil = c->equil ? YES : NO; opt.RowPerm = NOROWPERM;
                  if (c->aux == 2) { opt.ILU_FillFactor = c->tune[6]; opt.ILU_DropTol = 0.0; opt.ILU_DropRule = NODROP; }
                  if (c->aux == 3) {   /* capacity sweep: the initial capacity of all four growable arrays is (int)(ILU_FillFactor * nnz(A)) = nnz(A) + c->lwork; only rules that do not read the fill factor */
                      if (c->lwork > 3 * (long)s->S.nnz) { O->info = -777; if (!keep) xs_destroy(s); return; }
                      opt.ILU_FillFactor = c->aux3 ? 30.0 : ((double)s->S.nnz + (double)c->lwork + 0.5) / (double)s->S.nnz;
                      opt.ILU_DropRule = c->aux2 ? DROP_BASIC : NODROP; opt.ILU_DropTol = c->aux2 == 2 ? 0.5 : 1e-4; } }   /* aux=2: the fill estimate also drives the ILU storage guess */
    else xs_options(c, &opt, s);
    opt.Fact = DOFACT;
    s->work = work; s->lwork = lwork;
    memset(&s->Glu, 0, sizeof s->Glu);
    xs_call(s, &opt);
    O->info = s->info; O->glu_exp = s->Glu.num_expansions;
    if (s->info >= 0 && s->info <= c->n && c->aux != 1) {
        long init = (long)((double)c->tune[6] * (double)s->S.nnz);
        if (c->aux == 3) init = c->aux3 ? 30L * s->S.nnz : (long)s->S.nnz + c->lwork;
        if ((long)s->Glu.nzlumax > init) WK_COUNT(C_XL);
        if ((long)s->Glu.nzumax > init) WK_COUNT(C_XU);
        if ((long)s->Glu.nzlmax > init) WK_COUNT(C_XLS);
    }
    if (s->info >= 0 && s->info <= c->n && s->have_LU) {
        if (!r->status) o_glu_storage(s, r);
        O->ok = 1; O->h = hash_LU(T, &s->L, &s->U);
        memcpy(O->perm_r, s->perm_r, sizeof(int) * c->n); memcpy(O->perm_c, s->perm_c, sizeof(int) * c->n); memcpy(O->etree, s->etree, sizeof(int) * c->n);
        O->expansions = s->stat.expansions; O->nnzL = (long)((SCformat *)s->L.Store)->nnz; O->nnzU = (long)((NCformat *)s->U.Store)->nnz;
        O->for_lu = s->mu.for_lu; O->total_needed = s->mu.total_needed;
        dn_to_dense(&s->X, &O->X);
    }
    if (!keep) xs_destroy(s);
}
static int same_outcome(const outcome *a, const outcome *b, int n, char *why, size_t cap)
{
    if (a->info != b->info) { snprintf(why, cap, "info %ld vs %ld", a->info, b->info); return 0; }
    if (memcmp(a->perm_c, b->perm_c, sizeof(int) * n)) { snprintf(why, cap, "perm_c differs"); return 0; }
    if (memcmp(a->perm_r, b->perm_r, sizeof(int) * n)) { snprintf(why, cap, "perm_r differs"); return 0; }
    if (memcmp(a->etree, b->etree, sizeof(int) * n)) { snprintf(why, cap, "etree differs"); return 0; }
    if (a->h != b->h) { snprintf(why, cap, "L/U arrays differ (hash %016llx vs %016llx, nnzL %ld/%ld nnzU %ld/%ld)", (unsigned long long)a->h, (unsigned long long)b->h, a->nnzL, b->nnzL, a->nnzU, b->nnzU); return 0; }
    if (a->info == 0 && memcmp(a->X.a, b->X.a, sizeof a->X.a)) { snprintf(why, cap, "solution differs"); return 0; }
    return 1;
}
static int glu_invariants(const GlobalLU_t *G, vres *r)
{
    long top1 = (long)G->stack.top1, top2 = (long)G->stack.top2, size = (long)G->stack.size, used = (long)G->stack.used;
    if (!(0 <= top1 && top1 <= top2 && top2 <= size)) return wk_fail(r, "stack-invariant", "workspace stack: top1=%ld top2=%ld size=%ld", top1, top2, size);
    if (used != top1 + size - top2) return wk_fail(r, "stack-invariant", "workspace stack: used=%ld but top1 + size - top2 = %ld", used, top1 + size - top2);
    return 0;
}

/* ---------------------------------------------------------------------- C08 */
static void run_C08(const vcase *c, vres *r)
{
    int n = c->n; const vf_type *T = vf_T(c->type);
    if (pat_struct_rank(n, n, c->pat) < n) { r->status = 2; return; }     /* singular inputs: F8 territory, judged by C04 */
    if (c->aux) WK_COUNT(C_ILU);
    if (c->lworkmode == 1) {
        outcome base, O; run_once(c, NULL, 0, &base, NULL, r);
        if (base.info < 0 || base.info > n) { wk_fail(r, "baseline-failed", "library-allocation baseline returned info=%ld", base.info); return; }
        if (base.info > 0 && !c->aux) { r->status = 2; return; }             /* numerically singular under complete LU: not this property's premise */
        int slack; unsigned char *w = ws_place(c->lwork, c->align, c->aux2, &slack);
        if (c->align) WK_COUNT(C_AL4);
        WK_SET_FLAGS(WK_FLAG_FAULT);
        xs s; run_once(c, w, c->lwork, &O, &s, r);
        r->outcome = fnv(0, &O.info, sizeof(long)) ^ (O.info > n ? (uint64_t)O.glu_exp : 0);
        r->nontrivial = 1;
        if (!ws_canaries_ok(w, c->lwork, slack)) { wk_fail(r, "workspace-overrun", "bytes outside [work, work+lwork) were modified (lwork=%ld align=%d)", c->lwork, c->align); goto ws_done; }
        if (vf_n_free_unknown) { wk_fail(r, "free-of-workspace-pointer", "%s", vf_last_bad_free); goto ws_done; }
        if (O.info < 0) { wk_fail(r, "unexpected-info", "info=%ld with a caller workspace of %ld bytes", O.info, c->lwork); goto ws_done; }
        if (O.info > n) {
            if (O.glu_exp == 0) WK_COUNT(C_WINIT); else WK_COUNT(C_WMID);
        } else {
            char why[200];
            if (glu_invariants(&s.Glu, r)) goto ws_done;
            if (!same_outcome(&O, &base, n, why, sizeof why)) { wk_fail(r, "damaged-factors", "workspace of %ld bytes (align %d): result differs from library allocation: %s", c->lwork, c->align, why); goto ws_done; }
            verdict v; memset(&v, 0, sizeof v);
            if (O.info == 0 && check_LU_structure(T, &s.L, &s.U, n, n, c->aux, &v)) { wk_fail(r, "structure", "workspace mode: %s", v.msg); goto ws_done; }
            if (O.info == 0) WK_COUNT(C_WOK); else WK_COUNT(C_WSING);
        }
    ws_done:
        xs_destroy(&s);
        return;
    }
    if (c->lworkmode == 2) {
        /* size query: only info / mem_usage may change.  For the reuse modes a factorization is done first. */
        long live0 = vf_live_count();
        xs s; xs_init(&s, T, n, c->pat, c->vals, c->stor); s.ilu = c->aux;
        dmat B; make_rhs(T, &s.A_orig, 0, c->rhs, 1, &B); xs_set_rhs(&s, &B, 0, 0);
        superlu_options_t opt;
        if (c->aux) { ilu_opts(&opt); opt.ColPerm = COLAMD; opt.RowPerm = c->aux2 ? LargeDiag_MC64 : NOROWPERM; } else xs_options(c, &opt, &s);
        opt.Equil = c->equil ? YES : NO; opt.Fact = DOFACT;
        memset(&s.Glu, 0, sizeof s.Glu);
        if (c->fact != 0) { xs_call(&s, &opt); if (s.info != 0) { xs_destroy(&s); r->status = 2; return; } }
        static const fact_t fa[] = { DOFACT, SamePattern, SamePattern_SameRowPerm };
        opt.Fact = fa[c->fact];
        /* snapshot */
        dmat A0, B0, X0; xs_current_A(&s, &A0); dn_to_dense(&s.B, &B0); dn_to_dense(&s.X, &X0);
        int_t ind0[NMAX * NMAX], ptr0[NMAX + 1]; memcpy(ind0, s.S.ind, sizeof(int_t) * s.S.nnz); memcpy(ptr0, s.S.ptr, sizeof(int_t) * (n + 1));
        int pc[NMAX], pr[NMAX], et[NMAX]; memcpy(pc, s.perm_c, sizeof pc); memcpy(pr, s.perm_r, sizeof pr); memcpy(et, s.etree, sizeof et);
        char eq = s.equed[0], Rb[sizeof s.Rbuf], Cb[sizeof s.Cbuf]; memcpy(Rb, s.Rbuf, sizeof Rb); memcpy(Cb, s.Cbuf, sizeof Cb);
        uint64_t hLU = s.have_LU ? hash_LU(T, &s.L, &s.U) : 0; int had = s.have_LU;
        long save_lwork = s.lwork; s.lwork = -1;
        int_t info = -999; StatFree(&s.stat); StatInit(&s.stat);
        WK_PHASE(3);
        if (s.ilu) T->gsisx(&opt, &s.S.A, s.perm_c, s.perm_r, s.etree, s.equed, s.Rbuf, s.Cbuf, &s.L, &s.U, NULL, -1, &s.B.M, &s.X.M, s.rpg, s.rcond, &s.Glu, &s.mu, &s.stat, &info);
        else T->gssvx(&opt, &s.S.A, s.perm_c, s.perm_r, s.etree, s.equed, s.Rbuf, s.Cbuf, &s.L, &s.U, NULL, -1, &s.B.M, &s.X.M, s.rpg, s.rcond, s.ferr, s.berr, &s.Glu, &s.mu, &s.stat, &info);
        s.lwork = save_lwork;
        WK_COUNT(C_QUERY); r->nontrivial = 1; r->outcome = (uint64_t)info;
        if (!(info > n)) { wk_fail(r, "query-info", "size query returned info=%ld (must be n + estimate > n=%d)", (long)info, n); goto q_done; }
        if (!(s.mu.total_needed > 0) || (long)s.mu.total_needed != (long)info - n) { wk_fail(r, "query-estimate", "size query: info-n=%ld but mem_usage.total_needed=%g", (long)info - n, s.mu.total_needed); goto q_done; }
        {
            dmat A1, B1, X1; xs_current_A(&s, &A1); dn_to_dense(&s.B, &B1); dn_to_dense(&s.X, &X1);
            const char *what = NULL;
            if (memcmp(ind0, s.S.ind, sizeof(int_t) * s.S.nnz) || memcmp(ptr0, s.S.ptr, sizeof(int_t) * (n + 1))) what = "A row indices";
            else if (memcmp(A0.a, A1.a, sizeof A0.a)) what = c->equil ? "A values" : "A values with Equil off";
            else if (memcmp(B0.a, B1.a, sizeof B0.a)) what = "B";
            else if (memcmp(X0.a, X1.a, sizeof X0.a)) what = "X";
            else if (memcmp(pc, s.perm_c, sizeof(int) * n)) what = "perm_c";
            else if (memcmp(pr, s.perm_r, sizeof(int) * n)) what = "perm_r";
            else if (memcmp(et, s.etree, sizeof(int) * n)) what = "etree";
            else if (eq != s.equed[0]) what = "equed";
            else if (memcmp(Rb, s.Rbuf, sizeof Rb)) what = "R";
            else if (memcmp(Cb, s.Cbuf, sizeof Cb)) what = "C";
            else if (had && hash_LU(T, &s.L, &s.U) != hLU) what = "L/U";
            if (what) {
                /* F5: the drivers equilibrate / order (pre-processing outputs) before they ask the factor routine for the estimate */
                int pre = !strcmp(what, "A values") || !strcmp(what, "perm_c") || !strcmp(what, "etree") || !strcmp(what, "equed") || !strcmp(what, "R") || !strcmp(what, "C");
                if (pre) WK_COUNT(C_QSIDE);
                char sg[64]; snprintf(sg, sizeof sg, "query-side-effect:%s", what); for (char *q = sg; *q; q++) if (*q == ' ' || *q == '/') *q = '_';
                wk_fail(r, sg, "size query (Fact=%d Equil=%d ilu=%d) modified %s", c->fact, c->equil, c->aux, what);
            }
        }
    q_done:
        xs_destroy(&s);
        if (!r->status && vf_live_count() != live0) {      /* nothing of the library's own may survive the caller's destroy calls */
            vf_block bl[8]; int nb = vf_live_list(bl, 8); char m[240]; size_t o = 0; m[0] = 0;
            for (int i = 0; i < nb && o + 60 < sizeof m; i++) { const char *sl = strrchr(bl[i].file, '/'); o += snprintf(m + o, sizeof m - o, " %s:%d(%s)", sl ? sl + 1 : bl[i].file, bl[i].line, bl[i].func); }
            wk_fail(r, "leak-after-query", "size query (Fact=%d Equil=%d ilu=%d): %ld block(s) still allocated after the caller destroyed everything:%s", c->fact, c->equil, c->aux, vf_live_count() - live0, m); vf_release_all(); }
        return;
    }
    if (c->lworkmode == 3) {
        /* library allocation, k-th growth request (allocation made by xexpand) fails */
        outcome base, O; run_once(c, NULL, 0, &base, NULL, r);
        if (base.info < 0 || base.info > n) { wk_fail(r, "baseline-failed", "fault-free run returned info=%ld", base.info); return; }
        if (base.info > 0 && !c->aux) { r->status = 2; return; }
        vf_reset_case(); vf_fail_k = c->k; vf_fail_func = "expand";
        WK_SET_FLAGS(WK_FLAG_FAULT);
        run_once(c, NULL, 0, &O, NULL, r);
        long fired = vf_fail_fired; vf_fail_k = 0;
        r->nontrivial = fired > 0; r->outcome = fnv(0, &O.info, sizeof(long)) ^ (uint64_t)fired;
        if (!fired) { WK_COUNT(C_FNOT); char why[200]; if (!same_outcome(&O, &base, n, why, sizeof why)) wk_fail(r, "nondeterministic", "fault plan not reached but the result differs: %s", why); return; }
        if (O.info >= 0 && O.info <= n) {
            /* the retry logic absorbed the failure (halved initial sizes / reduced growth factor): the result must be unchanged */
            char why[200];
            if (!same_outcome(&O, &base, n, why, sizeof why)) { wk_fail(r, "damaged-factors", "allocation failure #%d was absorbed but the result differs: %s", c->k, why); return; }
            WK_COUNT(C_LOK);
        } else if (O.info > n) WK_COUNT(C_FREP);
        else wk_fail(r, "unexpected-info", "allocation failure #%d: info=%ld", c->k, O.info);
        return;
    }
}

/* ---------------------------------------------------------------------- C07
 * scenario digit: 0..4   library allocation, fill estimate FEST[k]
 *                 5..    caller workspace of L_min + delta bytes (delta list below), 2*L_min, 1 MiB; each x align{0,4} x prefill{00,FF,A5} */
static const int DELTA[] = { 0, 4, 8, 12, 16, 20, 24, 28, 32, 40, 48, 56, 64 };
#define NDELTA 13
#define NSCEN (5 + (NDELTA + 2) * 2 * 3)
static void set07(const int *d, vcase *c)
{
    set_base(c, d[0], d[1], d[2], d[3], d[4], d[5], d[6]); c->k = d[7]; c->fest = d[8] < 0 ? 30 : FEST[d[8]];
    c->tune[6] = c->fest; c->fillb = (int[]){ 0xA5, 0x00, 0xFF }[d[9]];
}
static void set07q(const int *d, vcase *c) { int e[10] = { d[0], d[1], d[2], d[3], d[4], d[5], d[6], d[7], d[8], d[7] % 3 }; set07(e, c); }
static const int TUNE_N8[4] = { 2, 3, 10, 5 };
static void set07N8(const int *d, vcase *c)    /* 8x8 bases in natural order: U outgrows nnz(A), so UCOL/USUB expand too */
{
    int e[10] = { d[0], 0, d[1], 0, 0, d[3], 0, d[4], 0, d[4] % 3 }; set07(e, c); c->aux = d[6] * 2;
    c->n = c->m = 8; c->pat = dev1_pattern(8, base_pattern(8, d[0]), d[5]); set_tune(c, TUNE_N8[d[2]]); c->fest = 1; c->tune[6] = 1;
}
static int cap_ndev = 3, cap_nrnd = 24;
static void set07Cap(const int *d, vcase *c)  /* incomplete LU, every initial capacity nnz(A) .. 4 nnz(A) of the growable arrays: pattern tune type drop capacity */
{
    int e[10] = { 0, 0, 0, 0, 0, d[2], 0, 0, 0, 0 }; set07(e, c); c->aux = 3; c->aux2 = d[3]; c->lwork = d[4]; c->k = 0;
    if (d[0] < 9 * cap_ndev) { c->n = c->m = 8; c->pat = dev1_pattern(8, base_pattern(8, d[0] / cap_ndev), d[0] % cap_ndev); c->colperm = 0; }
    else if (d[0] < 9 * cap_ndev + cap_nrnd) { int q = d[0] - 9 * cap_ndev; c->n = c->m = 12; c->gen = 2; c->pat = (uint64_t)(q / 2) + 500; c->colperm = (q & 1) ? 3 : 0; }     /* generated 12 x 12 patterns, NATURAL and COLAMD */
    else { int q = d[0] - 9 * cap_ndev - cap_nrnd; c->n = c->m = 12; c->gen = 1; c->colperm = 0;                       /* fill-heavy block followed by an independent block: L outgrows nnz(A) before later leaf supernodes */
           int dv = q / 2; c->pat = (uint64_t)(9 + (q & 1)) | ((uint64_t)(dv ? ((dv - 1) * 29 + 7) % 144 + 1 : 0) << 8); }
    set_tune(c, TUNE_N8[d[1]]); c->fest = 1; c->tune[6] = 1; c->fillb = (int[]){ 0xA5, 0x00, 0xFF }[d[4] % 3];
}
static int l12_nrnd = 40;
static void set07L12(const int *d, vcase *c)   /* library allocation with fill estimate 1 / 2 on orders 12 and 16: growth requests inside multi-column relaxed supernodes (xsnode_dfs, the copy kept for pruning) */
{
    int e[10] = { 0, 0, d[1], 0, 0, d[3], 0, d[4], 0, d[0] % 3 }; set07(e, c); c->aux = 0;
    c->n = c->m = d[5] ? 16 : 12;
    if (d[0] < 12) { c->gen = 1; c->pat = (uint64_t)(int[]){ 9, 10, 4, 7, 1, 2 }[d[0] / 2]; c->colperm = (d[0] & 1) ? 3 : 0; }
    else { int q = d[0] - 12; c->gen = 2; c->pat = (uint64_t)(700 + q / 2); c->colperm = (q & 1) ? 3 : 0; }
    set_tune(c, (int[]){ 13, 14, 10, 9, 0 }[d[2]]); c->fest = FEST[d[4]]; c->tune[6] = c->fest;
}
static void set07Z(const int *d, vcase *c)   /* complete LU, library allocation: nnz(A) stepped by explicit zeros inside the fill region, so the initial capacity fill*nnz(A) sweeps consecutive values */
{
    int e[10] = { 0, 0, 0, 0, 0, d[2], 0, d[3], 0, d[1] % 3 }; set07(e, c); c->aux = 0; c->vals = 2;
    c->n = c->m = 16; c->gen = 3; int h = d[0] ? 10 : 8; c->pat = (uint64_t)h | ((uint64_t)d[1] << 8); c->colperm = 0;
    if (d[1] > (h - 1) * (h - 2)) c->aux3 = 77;      /* more zeros than interior cells: skipped */
    set_tune(c, (int[]){ 13, 14, 10 }[d[4]]); c->fest = FEST[d[3]]; c->tune[6] = c->fest;
}
static void set07R(const int *d, vcase *c)     /* tall matrices through xgstrf are covered by C02; here: row storage + equilibration through the driver */
{ int e[10] = { d[0], d[1], 0, d[2], d[3], d[4], 0, d[5], d[6], 0 }; set07(e, c); c->stor = 1; c->equil = 1; c->vals = 4; }
static const family F07Q[] = {
    { "capacity sweep for complete LU (library allocation): 16x16 arrow block of order {8,10} + tridiagonal block, 0..72 explicit zeros in the fill region x type4 x fill estimate{1,2} x tune{(2,4,1..),(3,8,2..),(2,4,4..)}", 5, { 2, 73, 4, 2, 3 }, set07Z },
    { "library allocation, orders 12 and 16: (6 structured + 40 generated patterns) x {NATURAL,COLAMD} x vals2 x tune{(2,4,1..),(3,8,2..),(2,4,4..),(3,8,8..),default} x type4 x fill estimate{1,2}", 6, { 12 + 80, 2, 5, 4, 2, 2 }, set07L12 },
    { "DEV_1(BASE(8)) first 6 deviations, NATURAL order x vals2 x tune{1-col supernodes,(2,1,2..),(2,4,4..),(3,1,4..)} x type4 x scenario x fill estimate 1 x {LU, ILU with fill factor 1}", 7, { 9, 2, 4, 4, NSCEN, 6, 2 }, set07N8 },
    { "DEV_1(BASE(6)), first 10 deviations x vals2 x colperm2 x tune3 x type4 x {LU,ILU} x scenario(5 fill estimates + 15 workspace lengths x align2 x prefill3) x ws-fill-estimate{1,2,3}", 9, { 9, 10, 2, 2, 3, 4, 2, NSCEN, 3 }, set07q },
    { "incomplete LU, every initial capacity nnz(A)..4*nnz(A) of the growable arrays (fractional fill factor): {DEV_1(BASE(8)) first 3 deviations NATURAL, 12 generated 12x12 patterns x {NATURAL,COLAMD}, 12x12 {arrow block + tridiagonal block, two arrow blocks} x dev{0..3}} x tune4 x type4 x {NODROP, BASIC 1e-4, BASIC .5} x capacity offset 0..159", 5, { 9 * 3 + 24 + 8, 4, 4, 3, 160 }, set07Cap },
};
static const family F07T[] = {
    { "capacity sweep for complete LU (library allocation): 16x16 arrow block of order {8,10} + tridiagonal block, 0..72 explicit zeros in the fill region x type4 x fill estimate{1,2,3} x tune{(2,4,1..),(3,8,2..),(2,4,4..)}", 5, { 2, 73, 4, 3, 3 }, set07Z },
    { "library allocation, orders 12 and 16: (6 structured + 400 generated patterns) x {NATURAL,COLAMD} x vals2 x tune5 x type4 x fill estimate{1,2,3}", 6, { 12 + 800, 2, 5, 4, 3, 2 }, set07L12 },
    { "DEV_1(BASE(8)), NATURAL order x vals2 x tune4 x type4 x scenario x fill estimate 1 x {LU, ILU with fill factor 1}", 7, { 9, 2, 4, 4, NSCEN, 65, 2 }, set07N8 },
    { "DEV_1(BASE(6)) x vals2 x colperm4 x tune6 x type4 x {LU,ILU} x scenario x ws-fill-estimate5 (heap fill pattern cycles with the scenario)", 9, { 9, 37, 2, 4, 6, 4, 2, NSCEN, 5 }, set07q },
    { "row storage + equilibration: DEV_1(BASE(6)) x colperm4 x tune4 x type4 x scenario x fill5", 7, { 9, 37, 4, 4, 4, NSCEN, 5 }, set07R },
    { "incomplete LU, every initial capacity nnz(A)..4*nnz(A) of the growable arrays (fractional fill factor): {DEV_1(BASE(8)) first 24 deviations NATURAL, 60 generated 12x12 patterns x {NATURAL,COLAMD}, 12x12 {arrow block + tridiagonal block, two arrow blocks} x dev{0..19}} x tune4 x type4 x {NODROP, BASIC 1e-4, BASIC .5} x capacity offset 0..239", 5, { 9 * 24 + 120 + 40, 4, 4, 3, 240 }, set07Cap },
};
static long sz_07(int tier) { return tier ? fam_total(F07T, NF(F07T)) : fam_total(F07Q, NF(F07Q)); }
static void dec_07(int tier, long idx, vcase *c) { l12_nrnd = tier ? 400 : 40; cap_ndev = tier ? 24 : 3; cap_nrnd = tier ? 120 : 24; if (tier) fam_decode(F07T, NF(F07T), idx, c); else fam_decode(F07Q, NF(F07Q), idx, c); }
static void desc_07(int tier, char *b, size_t cap) { if (tier) fam_describe(F07T, NF(F07T), b, cap); else fam_describe(F07Q, NF(F07Q), b, cap); }

static long find_lmin(const vcase *c, vres *r)
{
    /* smallest multiple of 4 for which the call succeeds (monotone search, verified by the caller's scenario runs) */
    outcome O; long lo = 0, hi = 256; int slack;
    for (;;) { unsigned char *w = ws_place(hi, 0, 0xA5, &slack); run_once(c, w, hi, &O, NULL, r); if (O.info >= 0 && O.info <= c->n) break; lo = hi; hi *= 2; if (hi > (long)ARENA / 2) return -1; }
    while (hi - lo > 4) { long mid = ((lo + hi) / 2) & ~3L; if (mid <= lo) mid = lo + 4; unsigned char *w = ws_place(mid, 0, 0xA5, &slack); run_once(c, w, mid, &O, NULL, r); if (O.info >= 0 && O.info <= c->n) hi = mid; else lo = mid; }
    return hi;
}
static void run_C07(const vcase *c, vres *r)
{
    int n = c->n; const vf_type *T = vf_T(c->type);
    if (pat_struct_rank(n, n, c->pat) < n) { r->status = 2; return; }
    if (c->aux) WK_COUNT(C_ILU);
    /* reference: library allocation, fill estimate 30, fresh blocks filled 0xA5 */
    /* aux=2 (ILU whose fill factor doubles as storage guess): the fill factor is a numerical option there, so the reference keeps it */
    if (c->aux == 2 && c->k < 5) { r->status = 2; return; }
    if (c->aux3 == 77) { r->status = 2; return; }
    if (c->aux == 3) {
        vcase ref = *c; ref.aux3 = 1; vf_fill_byte = 0xA5; outcome base, O; char why[220];
        run_once(&ref, NULL, 0, &base, NULL, r);
        if (base.info == -777) { r->status = 2; return; }
        if (base.info < 0 || base.info > n) { wk_fail(r, "baseline-failed", "reference run returned info=%ld", base.info); return; }
        vf_fill_byte = c->fillb; vf_reset_case();
        xs s; run_once(c, NULL, 0, &O, &s, r);
        long grow = vf_expand_requests;
        r->nontrivial = 1; r->outcome = fnv(0, &O.expansions, sizeof(int)); WK_COUNT(C_CAPSWEEP);
        if (!same_outcome(&O, &base, n, why, sizeof why)) { wk_fail(r, "provenance", "incomplete LU with initial capacity nnz(A)+%ld: result differs from the ample-capacity run: %s", c->lwork, why); xs_destroy(&s); return; }
        if (O.expansions != grow - 4) { wk_fail(r, "expansion-count", "stat->expansions=%d but the ledger saw %ld growth allocations beyond the initial four", O.expansions, grow - 4); xs_destroy(&s); return; }
        verdict vv; memset(&vv, 0, sizeof vv);
        if (check_LU_structure(T, &s.L, &s.U, n, n, 1, &vv)) { wk_fail(r, "structure", "capacity nnz(A)+%ld: %s", c->lwork, vv.msg); xs_destroy(&s); return; }
        WK_COUNT(O.expansions == 0 ? C_E0 : O.expansions == 1 ? C_E1 : O.expansions == 2 ? C_E2 : C_E3);
        xs_destroy(&s); WK_COUNT(C_IDENT);
        /* the same capacities inside an ample caller workspace: every growth now slides the arrays behind the grown one (user_bcopy), so a pointer that a
           routine keeps across its own growth request goes stale exactly when an array is full at that request */
        {
            int slack; long L = 1L << 18; unsigned char *w = ws_place(L, (int)(c->lwork & 1) * 4, c->fillb, &slack); outcome O2; xs s2;
            vf_reset_case(); run_once(c, w, L, &O2, &s2, r);
            if (r->status) { xs_destroy(&s2); return; }
            if (!(O2.info >= 0 && O2.info <= n)) { wk_fail(r, "ws-capacity-failed", "incomplete LU with initial capacity nnz(A)+%ld in a 256 KiB caller workspace returned info=%ld", c->lwork, O2.info); xs_destroy(&s2); return; }
            O2.expansions = O.expansions;       /* counted differently per memory model; not part of this comparison */
            if (!same_outcome(&O2, &base, n, why, sizeof why)) { wk_fail(r, "provenance", "incomplete LU with initial capacity nnz(A)+%ld in a caller workspace: result differs from the ample-capacity library run: %s", c->lwork, why); xs_destroy(&s2); return; }
            verdict v2; memset(&v2, 0, sizeof v2);
            if (check_LU_structure(T, &s2.L, &s2.U, n, n, 1, &v2)) { wk_fail(r, "structure", "capacity nnz(A)+%ld, caller workspace: %s", c->lwork, v2.msg); xs_destroy(&s2); return; }
            xs_destroy(&s2); WK_COUNT(C_CAPWS);
        }
        return;
    }
    vcase ref = *c; if (c->aux != 2) ref.tune[6] = 30; vf_fill_byte = 0xA5;
    outcome base, O; run_once(&ref, NULL, 0, &base, NULL, r);
    if (base.info < 0 || base.info > n) { wk_fail(r, "baseline-failed", "reference run returned info=%ld", base.info); return; }
    if (base.info > 0 && !c->aux) { r->status = 2; return; }
    vf_fill_byte = c->fillb;
    int sc = c->k; char why[220];
    if (sc < 5) {
        vcase v = *c; v.tune[6] = FEST[sc];
        for (int i = 1; i <= 7; i++) vf_tune[i] = v.tune[i];
        vf_reset_case();
        xs s; run_once(&v, NULL, 0, &O, &s, r);
        long grow = vf_expand_requests;
        r->nontrivial = 1; r->outcome = fnv(0, &O.expansions, sizeof(int));
        if (!same_outcome(&O, &base, n, why, sizeof why)) { wk_fail(r, "provenance", "library allocation with fill estimate %d: result differs from fill estimate 30: %s", FEST[sc], why); xs_destroy(&s); return; }
        /* stat->expansions == growth requests beyond the 4 initial ones */
        if (O.expansions != grow - 4) { wk_fail(r, "expansion-count", "stat->expansions=%d but the ledger saw %ld growth allocations beyond the initial four", O.expansions, grow - 4); xs_destroy(&s); return; }
        WK_COUNT(O.expansions == 0 ? C_E0 : O.expansions == 1 ? C_E1 : O.expansions == 2 ? C_E2 : C_E3);
        /* counts and memory usage describe the returned factors */
        verdict vv; memset(&vv, 0, sizeof vv);
        if (O.info == 0 && check_LU_structure(T, &s.L, &s.U, n, n, c->aux, &vv)) { wk_fail(r, "structure", "fill estimate %d: %s", FEST[sc], vv.msg); xs_destroy(&s); return; }
        if (O.info == 0) {
            const SCformat *Ls = s.L.Store; const NCformat *Us = s.U.Store;
            double want = (4.0 * n + 3.0) * sizeof(int) + (double)Ls->nzval_colptr[n] * T->esz + (double)Ls->rowind_colptr[n] * sizeof(int) + (n + 1.0) * sizeof(int) + (double)Us->colptr[n] * (T->esz + sizeof(int));
            if (fabs(O.for_lu - want) > 8 * sizeof(int) || !(O.total_needed >= O.for_lu)) { wk_fail(r, "mem-usage", "mem_usage.for_lu=%g, factors occupy %g bytes; total_needed=%g", O.for_lu, want, O.total_needed); xs_destroy(&s); return; }
        }
        xs_destroy(&s);
        WK_COUNT(C_IDENT);
        return;
    }
    /* workspace scenarios */
    int k = sc - 5, li = k / 6, align = ((k % 6) / 3) * 4, prefill = (int[]){ 0x00, 0xFF, 0xA5 }[k % 3];
    for (int i = 1; i <= 7; i++) vf_tune[i] = c->tune[i];
    long lmin = find_lmin(c, r);
    if (lmin < 0) { wk_fail(r, "no-sufficient-length", "no workspace length up to 1 MiB succeeded"); return; }
    long lwork = li < NDELTA ? lmin + DELTA[li] : li == NDELTA ? 2 * lmin : (1L << 20);
    int slack; unsigned char *w = ws_place(lwork, align, prefill, &slack);
    if (align) WK_COUNT(C_AL4);
    xs s; run_once(c, w, lwork, &O, &s, r);
    r->nontrivial = 1; r->outcome = fnv(0, &O.expansions, sizeof(int)) ^ (uint64_t)align;
    if (!ws_canaries_ok(w, lwork, slack)) { wk_fail(r, "workspace-overrun", "bytes outside [work, work+lwork) were modified (lwork=%ld align=%d)", lwork, align); xs_destroy(&s); return; }
    if (O.info > n) { WK_COUNT(C_INSUF); xs_destroy(&s); r->status = 2; return; }      /* not a sufficient length (alignment padding): outside the premise */
    if (!same_outcome(&O, &base, n, why, sizeof why)) { wk_fail(r, "provenance", "caller workspace of %ld bytes (L_min=%ld, align %d, prefill 0x%02x, fill estimate %d): result differs from library allocation: %s", lwork, lmin, align, prefill, c->fest, why); xs_destroy(&s); return; }
    verdict vv; memset(&vv, 0, sizeof vv);
    if (O.info == 0 && check_LU_structure(T, &s.L, &s.U, n, n, c->aux, &vv)) { wk_fail(r, "structure", "workspace mode: %s", vv.msg); xs_destroy(&s); return; }
    WK_COUNT(O.expansions == 0 ? C_E0 : O.expansions == 1 ? C_E1 : O.expansions == 2 ? C_E2 : C_E3);
    WK_COUNT(C_IDENT);
    xs_destroy(&s);
}

static const char RULE08[] = "every (base case, workspace length, alignment) / (base case, Fact, Equil) size query / (base case, k-th failing growth request) of the listed product is executed on the real drivers; the workspace sits right-aligned against a PROT_NONE page with canary bytes on both sides; non-trivial = the workspace / fault / query path was actually taken";
static const char RULE07[] = "every (base case, storage scenario) of the listed product; each execution is compared bit-for-bit with the library-allocation, fill-estimate-30 run of the same case; non-trivial = the scenario succeeded and was compared";
const vf_check vf_checks[] = {
    { "C08", sz_08, dec_08, run_C08, CNT, RAT, RULE08, desc_08 },
    { "C07", sz_07, dec_07, run_C07, CNT, RAT, RULE07, desc_07 },
};
const int vf_nchecks = 2;
int main(int argc, char **argv) { return wk_main(argc, argv); }
