/* Access monitor + cooperative scheduler for the schedule explorer (variant `mon`).
 *
 * The library and the thread bodies are compiled with -fsanitize=thread, so the compiler calls
 * __tsan_read<N>/__tsan_write<N> before every memory access; this file (compiled WITHOUT instrumentation and linked
 * INSTEAD of the ThreadSanitizer runtime) supplies those callbacks.  One thread runs at a time; control changes hands only
 * inside sched_point(), which is called
 *   - at thread start / exit,
 *   - at every vf_malloc / vf_free (hooked through vf_sched_point),
 *   - at every instrumented access to memory the running thread does not own: a writable global / static of the program
 *     image, or a block inside another thread's arena.
 * Accesses to the thread's own stack and own arena never interact with other threads, so segments between scheduling
 * points commute; the monitor checks that premise on every access and records every foreign / global access. */
#define _GNU_SOURCE
#include <stdio.h>
#include <stdlib.h>
#include <string.h>
#include <stdint.h>
#include <pthread.h>
#include <semaphore.h>
#include <unistd.h>
#include <sys/mman.h>
#include "mon.h"

extern void (*vf_sched_point)(int kind);
extern int  (*vf_cur_tid)(void);
extern void *(*vf_arena_alloc)(size_t);

extern char __data_start[], _end[];          /* writable image of the executable: .data .. .bss */

mon_state mon;
static __thread int my_tid = -1;
static sem_t sems[MON_MAXT];
static unsigned char *arena_base[MON_MAXT];
static size_t arena_top[MON_MAXT];
#define ARENA_SZ (8u << 20)
static uintptr_t img_lo, img_hi, self_lo, self_hi;
static int active = 0;
#define WSET_SZ 65536
static uintptr_t wset[WSET_SZ]; int mon_wset_grew = 0; long mon_wset_size = 0;
void mon_wset_reset(void) { memset(wset, 0, sizeof wset); mon_wset_grew = 0; mon_wset_size = 0; }

static int cur_tid(void) { return my_tid < 0 ? 0 : my_tid; }
static void *arena_alloc(size_t n)
{
    int t = cur_tid();
    if (!active || my_tid < 0) return malloc(n);
    size_t a = (arena_top[t] + 15) & ~(size_t)15;
    if (a + n > ARENA_SZ) return NULL;
    arena_top[t] = a + n;
    return arena_base[t] + a;
}

/* ---------------------------------------------------------------- scheduler */
static void pick_and_switch(int me_finished)
{
    mon_state *m = &mon; int me = my_tid;
    /* enabled threads in canonical order: the running one first (if still enabled), then ascending ids */
    int en[MON_MAXT], ne = 0;
    if (!me_finished) en[ne++] = me;
    for (int t = 0; t < m->nthreads; t++) if (t != me && !m->finished[t] && m->started[t]) en[ne++] = t;
    if (ne == 0) return;
    int choice = 0;
    if (ne > 1 || me_finished) {
        long p = m->npoints;
        if (p < MON_MAXP) {
            if (p < m->prefix_len) { choice = m->prefix[p]; if (choice >= ne) { m->diverged = 1; choice = 0; } }
            m->pt_enabled[p] = (unsigned char)ne; m->pt_choice[p] = (unsigned char)choice; m->pt_running_enabled[p] = (unsigned char)!me_finished;
            m->pt_kind[p] = (unsigned char)m->cur_kind;
            m->npoints = p + 1;
        } else m->overflow = 1;
    }
    int next = en[choice];
    if (next == me) return;
    m->running = next; m->switches++;
    sem_post(&sems[next]);
    if (!me_finished) sem_wait(&sems[me]);
}
static void sched_point(int kind)
{
    if (!active || my_tid < 0) return;
    mon.cur_kind = kind;
    pick_and_switch(0);
}
void mon_thread_begin(int tid)
{
    my_tid = tid;
    sem_wait(&sems[tid]);          /* wait to be scheduled for the first time */
}
void mon_thread_end(void)
{
    mon.finished[my_tid] = 1;
    mon.cur_kind = 9;
    pick_and_switch(1);
    my_tid = -1;
}
void mon_begin(int nthreads, const unsigned char *prefix, int prefix_len)
{
    static int init = 0;
    if (!init) {
        for (int t = 0; t < MON_MAXT; t++) { arena_base[t] = mmap(NULL, ARENA_SZ, PROT_READ | PROT_WRITE, MAP_PRIVATE | MAP_ANONYMOUS, -1, 0); }
        img_lo = (uintptr_t)__data_start; img_hi = (uintptr_t)_end;
        self_lo = (uintptr_t)&mon; self_hi = self_lo + sizeof mon;
        vf_sched_point = sched_point; vf_cur_tid = cur_tid; vf_arena_alloc = arena_alloc;
        init = 1;
    }
    memset(&mon, 0, sizeof mon);
    mon.nthreads = nthreads; mon.prefix_len = prefix_len; if (prefix_len) memcpy(mon.prefix, prefix, prefix_len);
    for (int t = 0; t < nthreads; t++) { sem_init(&sems[t], 0, 0); arena_top[t] = 0; mon.started[t] = 1; }
    active = 1;
}
void mon_release_first(void) { mon.running = 0; sem_post(&sems[0]); }
void mon_end(void) { active = 0; }
void mon_arena_fill(int tid, int byte) { memset(arena_base[tid], byte, ARENA_SZ < (1u << 20) ? ARENA_SZ : (1u << 20)); }

/* ------------------------------------------------------------------ monitor */
static inline void on_access(void *addr, int size, int is_write)
{
    if (!active || my_tid < 0) return;
    uintptr_t a = (uintptr_t)addr; mon_state *m = &mon; int me = my_tid;
    m->accesses++;
    uintptr_t mine = (uintptr_t)arena_base[me];
    if (a - mine < ARENA_SZ) return;                                   /* own arena */
    int kind = 0, owner = -1;
    if (a >= img_lo && a < img_hi) { if (a >= self_lo && a < self_hi) return; kind = 1; }   /* writable global / static */
    else for (int t = 0; t < m->nthreads; t++) if (t != me && a - (uintptr_t)arena_base[t] < ARENA_SZ) { kind = 2; owner = t; break; }
    if (!kind) return;                                                  /* stack, read-only data, harness heap */
    m->foreign++;
    /* record (deduplicated by address, open addressing) and detect conflicts: same location, different threads, at least one write */
    int slot = -1;
    { unsigned h = (unsigned)((a * 0x9E3779B97F4A7C15ull) >> 40) & (MON_MAXS - 1);
      for (int probe = 0; probe < 64; probe++) { unsigned q = (h + probe) & (MON_MAXS - 1); if (m->sh_addr[q] == a) { slot = (int)q; break; } if (m->sh_addr[q] == 0) { slot = (int)q; m->sh_addr[q] = a; m->sh_readers[q] = 0; m->sh_writers[q] = 0; m->sh_kind[q] = (unsigned char)kind; m->nshared++; break; } }
      if (slot < 0) m->sh_overflow = 1; }
    if (slot >= 0) {
        unsigned bit = 1u << me;
        unsigned others_w = m->sh_writers[slot] & ~bit, others_r = m->sh_readers[slot] & ~bit;
        if ((is_write && (others_w | others_r)) || (!is_write && others_w) || (kind == 2 && is_write) || (kind == 2 && owner >= 0)) {
            if (!m->conflict) { m->conflict = 1; m->conflict_addr = a; m->conflict_kind = kind; m->conflict_write = is_write; m->conflict_tid = me; }
        }
        if (is_write) m->sh_writers[slot] |= bit; else m->sh_readers[slot] |= bit;
    }
    /* partial-order reduction: only accesses to granules that somebody writes are scheduling points */
    {
        uintptr_t g0 = a >> 3, g1 = (a + (size > 0 ? (uintptr_t)size - 1 : 0)) >> 3; if (g1 - g0 > 512) g1 = g0 + 512;
        int hit = 0;
        for (uintptr_t g = g0; g <= g1; g++) {
            unsigned h = (unsigned)((g * 0x9E3779B97F4A7C15ull) >> 40) & (WSET_SZ - 1); int found = 0;
            for (int probe = 0; probe < 64; probe++) { unsigned q = (h + probe) & (WSET_SZ - 1); if (wset[q] == g) { found = 1; break; } if (wset[q] == 0) { if (is_write) { wset[q] = g; mon_wset_grew = 1; mon_wset_size++; found = 1; } break; } }
            if (found) hit = 1;
        }
        if (!is_write && !hit) return;
    }
    mon.cur_kind = is_write ? 4 : 3;
    pick_and_switch(0);
}
#define RW(n) \
    void __tsan_read##n(void *a) { on_access(a, n, 0); } \
    void __tsan_write##n(void *a) { on_access(a, n, 1); } \
    void __tsan_unaligned_read##n(void *a) { on_access(a, n, 0); } \
    void __tsan_unaligned_write##n(void *a) { on_access(a, n, 1); }
RW(1) RW(2) RW(4) RW(8) RW(16)
void __tsan_read_range(void *a, unsigned long n) { on_access(a, (int)n, 0); }
void __tsan_write_range(void *a, unsigned long n) { on_access(a, (int)n, 1); }
void __tsan_func_entry(void *pc) { (void)pc; }
void __tsan_func_exit(void) {}
void __tsan_init(void) {}
void __tsan_vptr_update(void **a, void *b) { (void)a; (void)b; }
void __tsan_vptr_read(void **a) { (void)a; }
void *__tsan_memcpy(void *d, const void *s, unsigned long n) { on_access((void *)s, (int)n, 0); on_access(d, (int)n, 1); return memcpy(d, s, n); }
void *__tsan_memset(void *d, int c, unsigned long n) { on_access(d, (int)n, 1); return memset(d, c, n); }
void *__tsan_memmove(void *d, const void *s, unsigned long n) { on_access((void *)s, (int)n, 0); on_access(d, (int)n, 1); return memmove(d, s, n); }
