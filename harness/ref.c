/* Enumeration vocabulary (patterns, value schemes, right-hand sides, tuning
 * tuples) and the small exact helpers of the reference model. */
#include "vf.h"

const vf_type *vf_T(int id);

/* panel, relax, maxsuper, rowblk, colblk, fill, ilu-maxsuper (index 1..7) */
const int vf_tunings[][8] = {
    {0, 20, 10, 200, 200, 100, 30, 10},   /* 0 shipped defaults */
    {0, 3, 2, 10, 20, 10, 2, 10},         /* 1 the test-suite's tuple */
    {0, 1, 1, 1, 1, 1, 1, 1},             /* 2 */
    {0, 2, 1, 2, 1, 1, 1, 2},             /* 3 */
    {0, 2, 2, 3, 2, 1, 2, 2},             /* 4 */
    {0, 3, 1, 4, 1, 2, 1, 3},             /* 5 */
    {0, 3, 2, 2, 2, 2, 30, 2},            /* 6 */
    {0, 1, 3, 3, 200, 100, 2, 3},         /* 7 */
    {0, 4, 1, 8, 2, 2, 1, 4},             /* 8 */
    {0, 3, 8, 8, 2, 2, 1, 8},             /* 9 relax >= n: the whole (small) matrix is one relaxed supernode */
    {0, 2, 4, 4, 1, 1, 1, 4},             /* 10 */
    {0, 6, 2, 6, 3, 3, 2, 6},             /* 11 wider panels: U-segments of length >= 4 inside a panel */
    {0, 8, 4, 16, 4, 4, 1, 8},            /* 12 */
    {0, 2, 4, 1, 2, 2, 1, 4},             /* 13 relaxed supernodes of up to 4 columns, every other column its own supernode: lsub grows fastest */
    {0, 3, 8, 2, 2, 2, 1, 8},             /* 14 */
    {0, 3, 1, 4, 3, 1, 1, 3},             /* 15 row block > column block and (maxsuper + rowblk) * panel > n: the 2-D update uses the scratch vector beyond its first n entries */
};
const int vf_ntunings = 16;

/* structural rank by augmenting paths; bit (i*n+j) set <=> entry (i,j) */
static int aug(int m, int n, uint64_t pat, int j, int *seen, int *rowmatch)
{
    for (int i = 0; i < m; i++) if (vf_pat_bit(m, n, pat, i, j)) {
        if (seen[i]) continue;
        seen[i] = 1;
        if (rowmatch[i] < 0 || aug(m, n, pat, rowmatch[i], seen, rowmatch)) { rowmatch[i] = j; return 1; }
    }
    return 0;
}
int pat_struct_rank(int m, int n, uint64_t pat)
{
    int rowmatch[NMAX], r = 0;
    for (int i = 0; i < m; i++) rowmatch[i] = -1;
    for (int j = 0; j < n; j++) { int seen[NMAX] = {0}; if (aug(m, n, pat, j, seen, rowmatch)) r++; }
    return r;
}

int vf_pat_gen = 0;
int base_has(int n, int which, int i, int j)
{
    int d = (i == j);
    switch (which) {
    case 0: return d;
    case 1: return d || i == j + 1 || j == i + 1;
    case 2: return d || i == n - 1 || j == n - 1;
    case 3: return d || i == 0 || j == 0;
    case 4: { int h = n / 2; return d || ((i < h) == (j < h)); }
    case 5: return d || j == i + 1 || i == n - 1;
    case 6: return 1;
    case 7: { int w = n / 2; if (w < 1) w = 1; if (d) return 1;
              int a = i < j ? i : j, b = i < j ? j : i;            /* 2 x w grid Laplacian on nodes 0..2w-1 */
              if (b >= 2 * w) return 0;
              if (b == a + 1 && (a % w) + 1 < w && a / w == b / w) return 1;
              if (b == a + w && a < w) return 1;
              return 0; }
    case 8: return d || (((i * 7 + j * 11 + i * j * 3 + 5) % 10) < 3);
    /* kinds 9.. are only used by generated patterns (gen=1), not by the BASE(n) lists */
    case 9: { int h = 2 * n / 3; if (i < h && j < h) return d || i == 0 || j == 0; if (i >= h && j >= h) return d || i == j + 1 || j == i + 1; return 0; }   /* arrow-first block (+) tridiagonal block */
    case 10: { int h = n / 2; if ((i < h) != (j < h)) return 0; int a = i < h ? i : i - h, b = j < h ? j : j - h; return d || a == 0 || b == 0; }             /* two arrow-first blocks */
    case 11: return d || i == j + 2 || j == i + 2;                                     /* two interleaved tridiagonal chains: the natural order is not a postorder of the column etree */
    case 12: return d || i == j + 2 || j == i + 2 || j == n - 1;                       /* the same, joined by a dense last column */
    }
    return d;
}
int vf_pat_bit(int m, int n, uint64_t pat, int i, int j)
{
    if (vf_pat_gen == 0) return (int)((pat >> (i * n + j)) & 1);
    if (vf_pat_gen == 1) { int b = base_has(n, (int)(pat & 255), i, j); long dev = (long)(pat >> 8); if (dev > 0 && dev - 1 == (long)i * n + j) b = !b; return b; }
    if (vf_pat_gen == 3) {   /* arrow-first block of order h (+) tridiagonal block, plus the first z interior off-diagonal cells of the first block stored as EXPLICIT ZEROS:
                                they lie where the factors fill in anyway, so the structure of L and U is the same for every z while nnz(A) - and with it the
                                initial capacity fill*nnz(A) of the factor arrays - takes consecutive values */
        int h = (int)(pat & 255); long z = (long)(pat >> 8);
        if (i >= h || j >= h) return (i >= h && j >= h) ? (i == j || i == j + 1 || j == i + 1) : 0;
        if (i == j || i == 0 || j == 0) return 1;
        long a = i - 1, b = j - 1, rank = a * (h - 1) + b - a - (b > a);
        return rank < z;
    }
    /* pseudo-random, diagonal kept */
    if (i == j) return 1;
    uint64_t h = pat * 0x9E3779B97F4A7C15ull + (uint64_t)(i * 131 + j) * 0xBF58476D1CE4E5B9ull; h ^= h >> 29; h *= 0x94D049BB133111EBull; h ^= h >> 32;
    return (int)(h % 100) < (int)(12 + (pat % 4) * 7);
}
#define BIT(i,j) ((uint64_t)1 << ((i) * n + (j)))
int n_base_patterns(void) { return 9; }
uint64_t base_pattern(int n, int which)
{
    uint64_t p = 0;
    for (int i = 0; i < n; i++) for (int j = 0; j < n; j++) if (base_has(n, which, i, j)) p |= BIT(i, j);
    return p;
}
uint64_t dev1_pattern(int n, uint64_t base, int k) { return k == 0 ? base : base ^ ((uint64_t)1 << (k - 1)); }

void perm_unrank(int n, int r, int *perm)
{
    int avail[NMAX], f = 1;
    for (int i = 0; i < n; i++) avail[i] = i;
    for (int i = 2; i < n; i++) f *= i;           /* (n-1)! */
    for (int i = 0; i < n; i++) {
        int k = (n - 1 - i) ? r / f : 0;
        if (n - 1 - i) { r %= f; }
        perm[i] = avail[k];
        for (int t = k; t < n - 1 - i; t++) avail[t] = avail[t + 1];
        if (n - 1 - i > 1) f /= (n - 1 - i);
    }
}

/* ------------------------------------------------------------ value schemes */
static double _Complex phase(int k)
{
    switch (k & 3) { case 0: return 1; case 1: return I; case 2: return 0.6 + 0.8 * I; default: return -1; }
}
void make_values(const vf_type *T, int m, int n, uint64_t pat, int scheme, dmat *A)
{
    memset(A, 0, sizeof *A); A->m = m; A->n = n;
    for (int i = 0; i < m; i++) for (int j = 0; j < n; j++) {
        if (!vf_pat_bit(m, n, pat, i, j)) continue;
        double v = 1.0;
        int h = (i * 7 + j * 13 + i * j * 5 + 3);
        switch (scheme) {
        case 0: v = 1.0; break;
        case 1: v = (double)((i * 3 + j * 5 + 1) % 7 - 3); if (v == 0) v = 4; break;
        case 2: v = (i == j) ? (double)(2 * n + 1 + (i % 3)) : ((h % 2) ? -1.0 : 1.0) * (1 + (h % 3)) * 0.5; break;
        case 3: v = (i == j) ? ldexp(1.0, -20) : ((h % 2) ? -1.0 : 1.0) * (1 + (h % 5)); break;
        case 4: v = ((h % 2) ? -1.0 : 1.0) * (1.0 + (h % 11)) / (3.0 + (h % 7)) * pow(10.0, 6 * ((i % 3) - 1)); break;
        case 5: v = ((h % 2) ? -1.0 : 1.0) * (1.0 + (h % 11)) / (3.0 + (h % 7)) * pow(10.0, 6 * ((j % 3) - 1)); break;
        case 6: v = ((h % 3) ? 1.0 : -1.0) * ldexp(1.0, (h % 7) - 3); break;
        case 7: v = ((h % 2) ? -1.0 : 1.0) * (1.0 + (h % 11)) / (3.0 + (h % 7)) * pow(10.0, 4 * ((i % 3) - 1)) * pow(10.0, 3 * (((j + 1) % 3) - 1)); break;
        case 8: v = 1.0 + 1e-3 * ((h % 7) - 3); break;      /* nearly rank one: condition ~ 1/delta */
        case 9: v = 1.0 + 1e-6 * ((h % 7) - 3); break;
        case 10: v = 1.0 + 1e-9 * ((h % 7) - 3); break;
        case 11: v = ((h % 2) ? -1.0 : 1.0) * (1.0 + (h % 5)) * pow(1e-5, (double)i); break;   /* row graded */
        case 12: v = ((h % 2) ? -1.0 : 1.0) * (1.0 + (h % 5)) * pow(1e-4, (double)j); break;   /* column graded */
        case 13: case 14: {   /* entries above the diagonal of a column sum exactly to minus the entries on and below it: the mass an incomplete
                                 factorization drops from U cancels every pivot candidate of a modified-ILU column (13: dropped sum positive, 14: negative) */
            int kj = 0; for (int t = 0; t < j && t < m; t++) kj += vf_pat_bit(m, n, pat, t, j);
            v = (i < j) ? 0.5 / (kj ? kj : 1) : -0.5; if (scheme == 14) v = -v; break; }
        case 15: v = -(double)((i * 3 + j * 5 + 1) % 7 - 3); if (v == 0) v = -4; break;
        case 17: { uint64_t h2 = (uint64_t)(i * 1315423911u + j * 2654435761u + 97u) * 0x9E3779B97F4A7C15ull; h2 ^= h2 >> 31;     /* generic magnitudes: no two entries tie */
                   v = ((h2 & 1) ? -1.0 : 1.0) * (1.0 + (double)((h2 >> 8) % 9973) / 9973.0) * ldexp(1.0, (int)((h2 >> 32) % 7) - 3); break; }
        case 16: v = (double)((i * 3 + j * 5 + 1) % 7 - 3); if (v == 0) v = 4; v = ldexp(v, (T->id == TS || T->id == TC) ? -140 : -1065); break;   /* V1 scaled into the subnormal range: non-zero pivot candidates below the safe minimum */   /* V1 negated; complex: phases whose real and imaginary parts have opposite signs */
        case 18: v = (double)((i * 3 + j * 5 + 1) % 7 - 3); if (v == 0) v = 4; break;      /* V1; complex: almost real / almost imaginary phases (below) */
        case 19: v = (double)((i * 3 + j * 5 + 1) % 7 - 3); if (v == 0) v = 4; v = ldexp(v, (T->id == TS || T->id == TC) ? 70 : 600); break;    /* V1 scaled uniformly so that |a|^2 overflows but |a| is far inside the range */
        case 20: v = (double)((i * 3 + j * 5 + 1) % 7 - 3); if (v == 0) v = 4; v = ldexp(v, (T->id == TS || T->id == TC) ? -75 : -600); break;  /* ... and so that |a|^2 underflows */
        default: v = 1.0;
        }
        if (vf_pat_gen == 3) { int h3 = (int)(pat & 255); if (i < h3 && j < h3 && i != j && i != 0 && j != 0) v = 0.0; }   /* the extra cells of generator 3 are stored zeros */
        double _Complex z = v;
        if (T->cplx && scheme == 15) { switch ((i + 2 * j) & 3) { case 0: z = v * (0.6 - 0.8 * I); break; case 1: z = v * (-0.8 + 0.6 * I); break; case 2: z = v * (0.25 - 1.0 * I); break; default: z = v * (-I); } DM(A, i, j) = (xc)z; DZ(A, i, j) = 1; continue; }
        if (T->cplx && scheme == 18) { z = ((i + j) & 1) ? v * (1.0 + ldexp(1.0, -24) * I) : v * (ldexp(1.0, -24) - I); DM(A, i, j) = (xc)z; DZ(A, i, j) = 1; continue; }   /* one part 2^-24 of the other: |re|+|im| differs from max(|re|,|im|) in the 8th digit */
        if (T->cplx && scheme != 0 && scheme != 13 && scheme != 14 && scheme != 16) z = v * phase(i + 2 * j);
        DM(A, i, j) = (xc)z; DZ(A, i, j) = 1;
    }
}

/* op(A) x  with op by trans (0 N, 1 T, 2 C) */
static xc opA(const dmat *A, int trans, int i, int j)
{
    if (trans == 0) return DM(A, i, j);
    xc v = DM(A, j, i);
    return trans == 2 ? conjl(v) : v;
}
void make_rhs(const vf_type *T, const dmat *A, int trans, int scheme, int nrhs, dmat *B)
{
    int n = A->n;
    memset(B, 0, sizeof *B); B->m = n; B->n = nrhs;
    for (int c = 0; c < nrhs; c++) {
        int s = (scheme + c) % 5;
        for (int i = 0; i < n; i++) {
            xc v = 0;
            switch (s) {
            case 0: for (int j = 0; j < n; j++) v += opA(A, trans, i, j) * (xr)(1 + j + c); break;  /* A * (1,2,..,n) */
            case 1: v = (xr)((i * 5 + c * 3) % 7 + 1) / (xr)(2 + (i % 3)); if (i & 1) v = -v; if (T->cplx) v *= (xc)phase(i + c); break;
            case 2: v = 0; break;                                                                  /* zero column */
            case 3: v = (i & 1) ? 0 : (xr)(i + 2) * 0.75L; break;                                  /* zero components */
            case 4: v = opA(A, trans, i, (c + 1) % n); break;                                      /* A e_k */
            }
            DM(B, i, c) = v; DZ(B, i, c) = 1;
        }
    }
}

/* ----------------------------------------------------------- exact singularity
 * Fraction-free (Bareiss) elimination on entries that are integers after
 * scaling by a power of two; returns 1 singular, 0 nonsingular, -1 unknown
 * (non-dyadic / overflow / complex with both parts). */
int exact_singular(const dmat *A)
{
    int n = A->n; if (A->m != n) return -1;
    __int128 M[NMAX][NMAX];
    for (int i = 0; i < n; i++) for (int j = 0; j < n; j++) {
        xc z = DM(A, i, j);
        xr re = creall(z), im = cimagl(z), v;
        if (im != 0 && re != 0) return -1;
        v = (im != 0) ? im : re;                       /* purely imaginary entries: handled only if the whole matrix is real-or-pure-imag per entry => unknown unless all real */
        if (im != 0) return -1;
        xr s = v * 1024.0L;                            /* allow dyadic fractions down to 2^-10 */
        if (s != floorl(s) || fabsl(s) > 1e6L) return -1;
        M[i][j] = (__int128)s;
    }
    __int128 prev = 1;
    for (int k = 0; k < n; k++) {
        int p = -1;
        for (int i = k; i < n; i++) if (M[i][k] != 0) { p = i; break; }
        if (p < 0) return 1;
        if (p != k) for (int j = 0; j < n; j++) { __int128 t = M[p][j]; M[p][j] = M[k][j]; M[k][j] = t; }
        for (int i = k + 1; i < n; i++) for (int j = k + 1; j < n; j++) {
            __int128 a = M[k][k] * M[i][j] - M[i][k] * M[k][j];
            M[i][j] = a / prev;
        }
        prev = M[k][k];
    }
    return 0;
}

uint64_t fnv(uint64_t h, const void *p, size_t n)
{
    const unsigned char *q = p;
    if (!h) h = 1469598103934665603ull;
    for (size_t i = 0; i < n; i++) { h ^= q[i]; h *= 1099511628211ull; }
    return h;
}
int is_perm(const int *p, int n)
{
    unsigned seen = 0;
    for (int i = 0; i < n; i++) { if (p[i] < 0 || p[i] >= n || (seen >> p[i] & 1)) return 0; seen |= 1u << p[i]; }
    return 1;
}
xr xmag(const vf_type *T, xc v) { return T->cplx ? fabsl(creall(v)) + fabsl(cimagl(v)) : fabsl(creall(v)); }
