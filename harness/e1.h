/* Shared pieces of the small-scope enumerator (engine E1). */
#ifndef E1_H
#define E1_H
#include "wk.h"

/* pattern index -> (n, pat) for ALL(1..3): 2 + 16 + 512 = 530 */
static inline void all123(int k, int *n, uint64_t *pat)
{
    if (k < 2) { *n = 1; *pat = (uint64_t)k; }
    else if (k < 18) { *n = 2; *pat = (uint64_t)(k - 2); }
    else { *n = 3; *pat = (uint64_t)(k - 18); }
}
#define N_ALL123 530
#define N_ALL4 65536

/* family table */
typedef struct { const char *name; int nd; int dims[14]; void (*set)(const int *dig, vcase *c); } family;
static inline long fam_total(const family *f, int nf) { long s = 0; for (int i = 0; i < nf; i++) s += wk_prod(f[i].dims, f[i].nd); return s; }
static inline void fam_decode(const family *f, int nf, long idx, vcase *c)
{
    vcase_init(c);
    for (int i = 0; i < nf; i++) {
        long sz = wk_prod(f[i].dims, f[i].nd);
        if (idx < sz) { int dig[14]; wk_unrank(idx, f[i].dims, f[i].nd, dig); c->fam = i; f[i].set(dig, c); return; }
        idx -= sz;
    }
}
static inline void fam_describe(const family *f, int nf, char *buf, size_t cap)
{
    size_t o = 0; o += snprintf(buf + o, cap - o, "{\"families\":[");
    for (int i = 0; i < nf; i++) {
        o += snprintf(buf + o, cap - o, "%s{\"name\":\"%s\",\"dims\":[", i ? "," : "", f[i].name);
        for (int d = 0; d < f[i].nd; d++) o += snprintf(buf + o, cap - o, "%s%d", d ? "," : "", f[i].dims[d]);
        o += snprintf(buf + o, cap - o, "],\"size\":%ld}", wk_prod(f[i].dims, f[i].nd));
    }
    snprintf(buf + o, cap - o, "]}");
}
static inline void set_tune(vcase *c, int t) { for (int i = 1; i <= 7; i++) c->tune[i] = vf_tunings[t][i]; }

static const double U_LIST[] = { 1.0, 0.1, 1e-3, 0.5, 0.0 };

/* ---- one factor+solve through the simple driver, with everything the oracles need */
typedef struct {
    const vf_type *T; int n, m;
    dmat A;            /* caller's matrix (rounded to type) */
    dmat F;            /* matrix that was factored (A, or A^T for row storage) */
    dmat B0, X;        /* original rhs, returned solution */
    dmat Ld, Ud;
    int perm_r[NMAX], perm_c[NMAX];
    long info;
    int have_LU, expand_ok;
    int expansions;
    uint64_t outcome;
    int flags;
    int b_unchanged, a_unchanged, pad_ok;
    SuperMatrix L, U;
    vf_sparse S; vf_dense D; SuperLUStat_t stat;
} fs_run;

int  ref_numerically_singular(const dmat *A);            /* generous: 1 if GEPP in long double meets a ~zero column */
void e1_gssv(const vcase *c, fs_run *R);                  /* runs xgssv; fills R (objects stay alive) */
void e1_free(fs_run *R);
void e1_dump(const fs_run *R);
void dmat_print(const char *name, const dmat *A);
void fill_options(const vcase *c, superlu_options_t *o, int *perm_c, int n);
uint64_t hash_LU(const vf_type *T, const SuperMatrix *L, const SuperMatrix *U);

/* oracles returning 0 ok / 1 fail (message in r) */
int  o_residual(const vf_type *T, const dmat *A, int trans, const dmat *G, const dmat *B, const dmat *X, double c, vres *r, double *ratio);
void build_G(const dmat *Ld, const dmat *Ud, const int *perm_r, const int *perm_c, int transposed, dmat *G);
int  ref_solve(const dmat *A, int trans, const dmat *B, dmat *X);   /* long double GEPP; 0 ok, 1 singular */
int  o_pivoting(const vf_type *T, const dmat *F, const dmat *Ld, const dmat *Ud, const int *perm_r, const int *perm_c, double u, int check_diag, vres *r, double *ratio, long *ndiag);
#endif
