/* Engine E4: C09 (calls are reentrant, thread-safe and deterministic).
 *   C09sched (variant mon) : exhaustive preemption-bounded schedule exploration of 2-3 threads under the access monitor
 *   C09tsan  (variant tsan): the same thread bodies free-running under the real ThreadSanitizer runtime
 *   C09seq   (variant ref) : all orders of unrelated calls in one thread (with per-call tuning), each output compared
 *                            bit-for-bit with the same call executed first in a fresh process */
#define _GNU_SOURCE
#include "xs.h"
#include <pthread.h>
#include <unistd.h>
#include <sys/wait.h>
#include <fcntl.h>
#ifdef VF_MON
#include "mon.h"
#endif

static const char *const CNT[] = { "schedules", "scheduling_points", "preemption_bound_0", "preemption_bound_1", "preemption_bound_2", "pairs", "triples", "self_pairs", "instrumented_accesses", "foreign_or_global_accesses", "shared_written_locations",
    "sequences", "calls", "tsan_rounds", "capped_harnesses", "distinct_bodies", "written_shared_granules_max", NULL };
enum { K_SCHED, K_POINTS, K_B0, K_B1, K_B2, K_PAIRS, K_TRIPLES, K_SELF, K_ACC, K_FOREIGN, K_SHW, K_SEQ, K_CALLS, K_TSAN, K_CAP, K_BODIES, K_WSET };
static const char *const RAT[] = { NULL };

/* ------------------------------------------------------------------ bodies */
#define NBODY 12
#define NPAIRS (NBODY * (NBODY + 1) / 2)
static const int BODY_TUNE[NBODY] = { 0, 3, 5, 9, 3, 0, 4, 10, 2, 4, 3, 5 };   /* used by the sequential part only (sp_ienv is process-global) */
static uint64_t hx(uint64_t h, const xs *s, int with_err)
{
    int n = s->n; h = fnv(h, &s->info, sizeof s->info);
    h = fnv(h, s->perm_c, sizeof(int) * n); h = fnv(h, s->perm_r, sizeof(int) * n); h = fnv(h, s->etree, sizeof(int) * n); h = fnv(h, s->equed, 1);
    h = fnv(h, s->X.val, s->T->esz * (size_t)s->X.ld * s->nrhs); h = fnv(h, s->B.val, s->T->esz * (size_t)s->B.ld * s->nrhs);
    h = fnv(h, s->S.nzval, s->T->esz * s->S.nnz);
    if (s->have_LU) { uint64_t l = hash_LU(s->T, &s->L, &s->U); h = fnv(h, &l, sizeof l); }
    h = fnv(h, s->rcond, s->T->rsz); h = fnv(h, s->rpg, s->T->rsz);
    if (with_err) { h = fnv(h, s->ferr, s->T->rsz * s->nrhs); h = fnv(h, s->berr, s->T->rsz * s->nrhs); }
    int rs = s->stat.RefineSteps, ex = s->stat.expansions; h = fnv(h, &rs, sizeof rs); h = fnv(h, &ex, sizeof ex);
    return h;
}
static uint64_t body_gssvx(int type, int trans, int stor, int colperm, int vals, int base)
{
    const vf_type *T = vf_T(type); xs s; xs_init(&s, T, 6, base_pattern(6, base), vals, stor);
    dmat B; make_rhs(T, &s.A_orig, trans, 0, 2, &B); xs_set_rhs(&s, &B, 1, 0);
    superlu_options_t opt; vcase c; vcase_init(&c); c.colperm = colperm; c.trans = trans; c.equil = 1; c.refine = 1; c.cond = 1; c.growth = 1; c.u = 1.0; c.permid = -1;
    xs_options(&c, &opt, &s); memset(&s.Glu, 0, sizeof s.Glu);
    xs_call(&s, &opt);
    uint64_t h = hx(0, &s, 1); xs_destroy(&s); return h;
}
/* the expert driver factoring into a caller workspace whose bytes are whatever the block held before (a ledger block: pre-filled with the case's fill byte) */
static uint64_t body_gssvx_ws(int type, int base, int vals)
{
    const vf_type *T = vf_T(type); xs s; xs_init(&s, T, 6, base_pattern(6, base), vals, 0);
    dmat B; make_rhs(T, &s.A_orig, 0, 0, 1, &B); xs_set_rhs(&s, &B, 0, 0);
    superlu_options_t opt; vcase c; vcase_init(&c); c.colperm = 3; c.equil = 1; c.refine = 1; c.cond = 1; c.growth = 1; c.u = 1.0; c.permid = -1;
    xs_options(&c, &opt, &s); memset(&s.Glu, 0, sizeof s.Glu);
    long lw = 1L << 16; void *w = SUPERLU_MALLOC(lw); s.work = w; s.lwork = lw;
    xs_call(&s, &opt);
    uint64_t h = hx(0, &s, 1); xs_destroy(&s); SUPERLU_FREE(w); return h;
}
static uint64_t body_gssv(int type, int stor, int base)
{
    vcase c; vcase_init(&c); c.type = type; c.n = c.m = 6; c.pat = base_pattern(6, base); c.vals = 2; c.colperm = 3; c.stor = stor; c.nrhs = 2; c.ldbx = 1; c.rhs = 1; c.u = 1.0; c.permid = -1;
    fs_run R; e1_gssv(&c, &R); uint64_t h = fnv(0, &R.info, sizeof R.info);
    h = fnv(h, R.perm_c, sizeof(int) * 6); h = fnv(h, R.perm_r, sizeof(int) * 6); h = fnv(h, R.D.val, R.T->esz * (size_t)R.D.ld * 2);
    if (R.have_LU) { uint64_t l = hash_LU(R.T, &R.L, &R.U); h = fnv(h, &l, sizeof l); }
    e1_free(&R); return h;
}
static uint64_t body_manual(void)
{
    const vf_type *T = vf_T(TD); int n = 6; dmat A, B; make_values(T, n, n, base_pattern(n, 7), 2, &A); vf_sparse S; sp_from_dense(&S, T, &A, 0);
    make_rhs(T, &A, 0, 1, 1, &B); vf_dense D; dn_from_dense(&D, T, &B, n, 0.0);
    int pc[NMAX], pr[NMAX], et[NMAX]; superlu_options_t opt; set_default_options(&opt); opt.PrintStat = NO; SuperLUStat_t st; StatInit(&st);
    SuperMatrix AC, L, U; GlobalLU_t G; memset(&G, 0, sizeof G); int_t info = -9; int i2; char rc[8];
    get_perm_c(COLAMD, &S.A, pc); sp_preorder(&opt, &S.A, pc, et, &AC);
    T->gstrf(&opt, &AC, sp_ienv(2), sp_ienv(1), et, NULL, 0, pc, pr, &L, &U, &G, &st, &info);
    uint64_t h = fnv(0, &info, sizeof info);
    if (info == 0) { T->gstrs(NOTRANS, &L, &U, pc, pr, &D.M, &st, &i2); T->gscon("1", &L, &U, 3.0, rc, &st, &i2); h = fnv(h, rc, 8); uint64_t l = hash_LU(T, &L, &U); h = fnv(h, &l, sizeof l); h = fnv(h, D.val, T->esz * n); }
    h = fnv(h, pc, sizeof(int) * n); h = fnv(h, pr, sizeof(int) * n); h = fnv(h, et, sizeof(int) * n);
    if (info >= 0 && info <= n) { Destroy_SuperNode_Matrix(&L); Destroy_CompCol_Matrix(&U); }
    Destroy_CompCol_Permuted(&AC); StatFree(&st); sp_destroy(&S); dn_destroy(&D); return h;
}
static uint64_t body_order(void)
{
    const vf_type *T = vf_T(TD); int n = 8; dmat A; make_values(T, n, n, base_pattern(n, 8), 1, &A); vf_sparse S; sp_from_dense(&S, T, &A, 0);
    int pc[NMAX], et[NMAX]; uint64_t h = 0; superlu_options_t opt; set_default_options(&opt); opt.PrintStat = NO;
    for (int sp = 1; sp <= 3; sp++) { SuperMatrix AC; get_perm_c(sp, &S.A, pc); sp_preorder(&opt, &S.A, pc, et, &AC); h = fnv(h, pc, sizeof(int) * n); h = fnv(h, et, sizeof(int) * n); Destroy_CompCol_Permuted(&AC); }
    sp_destroy(&S); return h;
}
static uint64_t body_ilu(void)
{
    const vf_type *T = vf_T(TD); xs s; xs_init(&s, T, 6, base_pattern(6, 1), 4, 0); s.ilu = 1;
    dmat B; make_rhs(T, &s.A_orig, 0, 1, 1, &B); xs_set_rhs(&s, &B, 0, 0);
    superlu_options_t opt; ilu_set_default_options(&opt); opt.PrintStat = NO; opt.ConditionNumber = YES; memset(&s.Glu, 0, sizeof s.Glu);
    xs_call(&s, &opt); uint64_t h = hx(0, &s, 0); xs_destroy(&s); return h;
}
/* incomplete LU with the modified-ILU compensation: two bodies of the same order that differ only in their options (ILU_MILU_Dim, drop tolerance) */
static uint64_t body_milu(double dim, double tol, int vals)
{
    const vf_type *T = vf_T(TD); xs s; xs_init(&s, T, 8, base_pattern(8, 6), vals, 0); s.ilu = 1;
    dmat B; make_rhs(T, &s.A_orig, 0, 1, 1, &B); xs_set_rhs(&s, &B, 0, 0);
    superlu_options_t opt; ilu_set_default_options(&opt); opt.PrintStat = NO; opt.ILU_MILU = SMILU_2; opt.ILU_MILU_Dim = dim; opt.ILU_DropTol = tol; opt.ConditionNumber = YES; memset(&s.Glu, 0, sizeof s.Glu);
    xs_call(&s, &opt); uint64_t h = hx(0, &s, 0); xs_destroy(&s); return h;
}
static uint64_t body_bridge(void)
{
    const vf_type *T = vf_T(TD); int n = 6; dmat A, B; make_values(T, n, n, base_pattern(n, 2), 2, &A);
    int_t nnz = 0, cp[NMAX + 1], ri[NMAX * NMAX]; double val[NMAX * NMAX], b[NMAX * 2];
    for (int j = 0; j < n; j++) { cp[j] = nnz + 1; for (int i = 0; i < n; i++) if (DZ(&A, i, j)) { val[nnz] = (double)creall(DM(&A, i, j)); ri[nnz] = i + 1; nnz++; } } cp[n] = nnz + 1;
    make_rhs(T, &A, 0, 1, 2, &B); for (int c = 0; c < 2; c++) for (int i = 0; i < n; i++) b[i + c * n] = (double)creall(DM(&B, i, c));
    int iopt = 1, nrhs = 2, ldb = n; int64_t hdl = 0; int_t info = -9;
    T->fortran_gssv(&iopt, &n, &nnz, &nrhs, val, ri, cp, b, &ldb, &hdl, &info); uint64_t h = fnv(0, &info, sizeof info);
    iopt = 2; T->fortran_gssv(&iopt, &n, &nnz, &nrhs, val, ri, cp, b, &ldb, &hdl, &info); h = fnv(h, b, sizeof(double) * n * 2);
    iopt = 3; T->fortran_gssv(&iopt, &n, &nnz, &nrhs, val, ri, cp, b, &ldb, &hdl, &info);
    return h;
}
static uint64_t run_body(int k)
{
    switch (k) {
    case 0: return body_gssvx(TD, 0, 0, 1, 4, 8);
    case 1: return body_gssvx(TZ, 2, 0, 3, 7, 1);
    case 2: return body_gssv(TS, 0, 2);
    case 3: return body_gssv(TC, 1, 7);
    case 4: return body_manual();
    case 5: return body_order();
    case 6: return body_milu(3.0, 0.3, 6);
    case 9: return body_milu(2.0, 0.3, 6);
    case 7: return body_bridge();
    case 10: return body_gssvx(TC, 0, 0, 3, 4, 2);          /* single complex with refinement and condition estimate */
    case 11: return body_gssvx_ws(TZ, 5, 2);               /* factors in a caller workspace */
    default: return body_gssvx(TS, 1, 1, 2, 5, 5);
    }
}

/* ---------------------------------------------------------------- solo hashes
 * "the same call executed alone": in a fresh process (exec of this binary) so that no earlier call can have left state */
static uint64_t solo_cache[NBODY][16]; static int solo_have[NBODY][16];
static int tune_slot(const int *t) { for (int k = 0; k < vf_ntunings; k++) { int eq = 1; for (int i = 1; i <= 7; i++) if (vf_tunings[k][i] != t[i]) eq = 0; if (eq) return k; } return -1; }
static uint64_t solo_hash(int body, int tune_idx, int fillb)
{
    if (solo_have[body][tune_idx]) return solo_cache[body][tune_idx];
    char cmd[256]; snprintf(cmd, sizeof cmd, "exec /proc/%d/exe C09solo --solo %d,%d,%d 2>/dev/null", (int)getpid(), body, tune_idx, fillb);
    FILE *p = popen(cmd, "r"); unsigned long long v = 0; if (!p || fscanf(p, "%llx", &v) != 1) v = 0; if (p) pclose(p);
    solo_cache[body][tune_idx] = v; solo_have[body][tune_idx] = 1; return v;
}

/* ================================================================== C09seq */
static void run_seq(const vcase *c, vres *r)
{
    int len = c->k, w = (int)c->lwork, calls[4];
    for (int i = len - 1; i >= 0; i--) { calls[i] = w % NBODY; w /= NBODY; }
    WK_COUNT(K_SEQ); r->nontrivial = len >= 2; r->outcome = (uint64_t)c->lwork * 7 + len;
    for (int i = 0; i < len; i++) {
        int b = calls[i], ti = BODY_TUNE[b];
        for (int q = 1; q <= 7; q++) vf_tune[q] = vf_tunings[ti][q];
        uint64_t want = solo_hash(b, ti, c->fillb), got = run_body(b);
        WK_COUNT(K_CALLS);
        if (!want) { wk_fail(r, "harness-solo", "could not obtain the solo result of body %d", b); return; }
        if (got != want) { char hs[64]; size_t o = 0; for (int k = 0; k <= i; k++) o += snprintf(hs + o, sizeof hs - o, "%s%d", k ? "," : "", calls[k]); wk_fail(r, "history-dependent-output", "call sequence [%s]: the output of call %d (body %d) differs bit-wise from the same call executed first in a fresh process", hs, i, b); return; }
    }
}
static void s_seq(const int *d, vcase *c) { c->k = d[0] + 1; long w = d[1]; long lim = 1; for (int i = 0; i < c->k; i++) lim *= NBODY; c->lwork = w; c->aux = (w < lim) ? 0 : 1; c->fillb = (int[]){ 0xA5, 0x00, 0xFF }[d[2]]; }
static long sz_seq(int tier) { int L = tier ? 4 : 3; long s = 0, p = 1; for (int l = 1; l <= L; l++) { p *= NBODY; s += p; } return s * 3; }
static void dec_seq(int tier, long idx, vcase *c) { vcase_init(c); int fill = (int)(idx % 3); idx /= 3; int L = tier ? 4 : 3; long p = 1; for (int l = 1; l <= L; l++) { p *= NBODY; if (idx < p) { int d[3] = { l - 1, (int)idx, fill }; s_seq(d, c); return; } idx -= p; } }
static void desc_seq(int tier, char *b, size_t cap) { snprintf(b, cap, "{\"families\":[{\"name\":\"all sequences of length <= %d over %d unrelated calls (each with its own tuning parameters) x 3 heap fill patterns\",\"size\":%ld}]}", tier ? 4 : 3, NBODY, sz_seq(tier)); }

/* ================================================================ threads */
typedef struct { int tid, body; uint64_t out; int rounds; pthread_barrier_t *bar; } targ;
#ifdef VF_MON
static void *thr_main(void *a) { targ *t = a; mon_thread_begin(t->tid); t->out = run_body(t->body); mon_thread_end(); return NULL; }
/* one execution under a given choice prefix */
static int execute(int nt, const int *bodies, const unsigned char *prefix, int plen, uint64_t *outs)
{
    pthread_t th[MON_MAXT]; targ ta[MON_MAXT];
    mon_begin(nt, prefix, plen);
    for (int t = 0; t < nt; t++) { ta[t].tid = t; ta[t].body = bodies[t]; ta[t].out = 0; pthread_create(&th[t], NULL, thr_main, &ta[t]); }
    mon_release_first();
    for (int t = 0; t < nt; t++) pthread_join(th[t], NULL);
    mon_end();
    for (int t = 0; t < nt; t++) outs[t] = ta[t].out;
    return 0;
}
typedef struct { long schedules, points; int capped; double t0, budget; } xstats;
static double now_s(void) { struct timespec ts; clock_gettime(CLOCK_MONOTONIC, &ts); return ts.tv_sec + 1e-9 * ts.tv_nsec; }
static int explore(int nt, const int *bodies, const uint64_t *solo, int bound, unsigned char *prefix, int plen, int pre_cost, xstats *X, long cap, vres *r)
{
    uint64_t outs[MON_MAXT];
    execute(nt, bodies, prefix, plen, outs);
    X->schedules++; X->points += mon.npoints; WK_ADD(K_ACC, mon.accesses); WK_ADD(K_FOREIGN, mon.foreign);
    { int sw = 0; for (int i = 0; i < mon.nshared; i++) if (mon.sh_writers[i]) sw++; if (sw > wk->counters[K_SHW]) wk->counters[K_SHW] = sw; }
    if (mon.diverged) return wk_fail(r, "replay-divergence", "harness fault: a recorded choice prefix could not be replayed");
    char sch[200]; size_t o = 0; for (int i = 0; i < plen && o + 8 < sizeof sch; i++) o += snprintf(sch + o, sizeof sch - o, "%s%d", i ? "," : "", prefix[i]); if (!plen) snprintf(sch, sizeof sch, "(default)");
    if (mon.conflict) return wk_fail(r, "data-race", "threads running bodies %d,%d%s: location %p (%s) is accessed by two threads with at least one write (thread %d, %s) under schedule prefix [%s]",
                                     bodies[0], bodies[1], nt > 2 ? ",.." : "", (void *)mon.conflict_addr, mon.conflict_kind == 1 ? "writable global/static" : "block of another thread", mon.conflict_tid, mon.conflict_write ? "write" : "read", sch);
    for (int t = 0; t < nt; t++) if (outs[t] != solo[bodies[t]]) return wk_fail(r, "output-differs-from-solo", "thread %d (body %d) produced output that differs bit-wise from the same call executed alone, under schedule prefix [%s]", t, bodies[t], sch);
    if (mon.overflow || mon.sh_overflow) X->capped = 1;
    /* copy this execution's decisions, then branch */
    long np = mon.npoints; if (np > MON_MAXP) np = MON_MAXP;
    static unsigned char en_s[8][MON_MAXP], ch_s[8][MON_MAXP], re_s[8][MON_MAXP]; static int depth = 0;
    if (depth >= 7) return 0;
    unsigned char *en = en_s[depth], *ch = ch_s[depth], *re = re_s[depth];
    memcpy(en, mon.pt_enabled, np); memcpy(ch, mon.pt_choice, np); memcpy(re, mon.pt_running_enabled, np);
    int cost = pre_cost;
    for (long i = plen; i < np; i++) {
        /* cost of the decisions up to i-1 is accumulated as we go (the default continuation never preempts) */
        for (int alt = 1; alt < en[i]; alt++) {
            int c2 = cost + (re[i] ? 1 : 0);       /* switching away from a runnable thread is a preemption */
            if (c2 > bound) continue;
            if (X->schedules >= cap || now_s() - X->t0 > X->budget) { X->capped = 1; return 0; }
            unsigned char *np2 = malloc(i + 1); memcpy(np2, ch, i); np2[i] = (unsigned char)alt;
            depth++; int bad = explore(nt, bodies, solo, bound, np2, (int)i + 1, c2, X, cap, r); depth--;
            free(np2);
            if (bad) return 1;
        }
    }
    return 0;
}
#endif

static uint64_t g_solo[NBODY]; static int g_solo_ok = 0;
static void compute_solo_inproc(void) { if (g_solo_ok) return; for (int b = 0; b < NBODY; b++) g_solo[b] = run_body(b); g_solo_ok = 1; }

static void run_sched(const vcase *c, vres *r)
{
#ifdef VF_MON
    int nt = c->aux, bodies[3] = { c->k % NBODY, (c->k / NBODY) % NBODY, (c->k / (NBODY * NBODY)) % NBODY }, bound = c->aux2;
    for (int q = 1; q <= 7; q++) vf_tune[q] = vf_tunings[3][q];
    for (int t = 0; t < 4; t++) vf_T(t);
    /* solo outputs: each body alone under the monitor (one thread) */
    uint64_t solo[NBODY]; memset(solo, 0, sizeof solo);
    mon_wset_reset();
    /* first contact: the threads run before anything else in this process has called the library, so that lazily initialised process-lifetime state
       (function-local statics, caches) is first touched concurrently */
    { uint64_t o0[MON_MAXT]; execute(nt, bodies, NULL, 0, o0);
      if (mon.conflict) { wk_fail(r, "data-race", "threads running bodies %d,%d%s, first use in a fresh process: location %p (%s) is accessed by two threads with at least one write (thread %d, %s)", bodies[0], bodies[1], nt > 2 ? ",.." : "", (void *)mon.conflict_addr, mon.conflict_kind == 1 ? "writable global/static" : "block of another thread", mon.conflict_tid, mon.conflict_write ? "write" : "read"); return; } }
    for (int t = 0; t < nt; t++) { int b = bodies[t]; if (!solo[b]) { uint64_t o[1]; execute(1, &b, NULL, 0, o); solo[b] = o[0]; if (mon.conflict) { wk_fail(r, "harness", "conflict in a solo run"); return; } } }
    /* the exploration is repeated while the set of written shared granules grows (reads of a granule become scheduling points once somebody writes it) */
    xstats X = { 0, 0, 0, now_s(), c->aux3 > 0 ? (double)c->aux3 : 70.0 }; int bad = 0, rounds = 0;   /* time budget: a harness that cannot finish is reported as capped, never as a hang */
    do { mon_wset_grew = 0; X.schedules = X.points = 0; X.capped = 0; bad = explore(nt, bodies, solo, bound, NULL, 0, 0, &X, c->lwork > 0 ? c->lwork : 200000, r); rounds++; } while (!bad && mon_wset_grew && rounds < 6);
    if (!bad && mon_wset_grew) X.capped = 1;
    if (mon_wset_size > wk->counters[K_WSET]) wk->counters[K_WSET] = mon_wset_size;
    WK_ADD(K_SCHED, X.schedules); WK_ADD(K_POINTS, X.points); WK_COUNT(bound == 0 ? K_B0 : bound == 1 ? K_B1 : K_B2); WK_COUNT(nt == 2 ? K_PAIRS : K_TRIPLES); if (nt == 2 && bodies[0] == bodies[1]) WK_COUNT(K_SELF);
    if (X.capped) WK_COUNT(K_CAP);
    r->nontrivial = X.schedules > 1; r->outcome = (uint64_t)X.schedules;
    (void)bad;
#else
    r->status = 2;
#endif
}
/* all unordered pairs incl. self pairs: 45; triples: 6 fixed */
static const int TRIPLES[6][3] = { { 0, 1, 2 }, { 0, 4, 6 }, { 3, 5, 7 }, { 0, 0, 0 }, { 4, 4, 8 }, { 1, 6, 8 } };
static void s_pair(const int *d, vcase *c) { int k = d[0], a = 0, b = 0; for (a = 0; a < NBODY; a++) { int cnt = NBODY - a; if (k < cnt) { b = a + k; break; } k -= cnt; } c->aux = 2; c->k = a + NBODY * b; c->aux2 = d[1]; c->lwork = 60000; }
static void s_triple(const int *d, vcase *c) { c->aux = 3; c->k = TRIPLES[d[0]][0] + NBODY * TRIPLES[d[0]][1] + NBODY * NBODY * TRIPLES[d[0]][2]; c->aux2 = d[1]; c->lwork = 60000; }
static void s_self2(const int *d, vcase *c) { c->aux = 2; c->k = d[0] + NBODY * d[0]; c->aux2 = 2; c->lwork = 60000; }
static const family FSQ[] = { { "all 78 unordered pairs of 12 bodies (self pairs included) x preemption bound {0,1}", 2, { NPAIRS, 2 }, s_pair }, { "6 triples x preemption bound {0,1}", 2, { 6, 2 }, s_triple }, { "12 self pairs at preemption bound 2", 1, { NBODY }, s_self2 } };
static const family FST[] = { { "all 78 unordered pairs of 12 bodies x preemption bound {0,1,2}", 2, { NPAIRS, 3 }, s_pair }, { "6 triples x preemption bound {0,1,2}", 2, { 6, 3 }, s_triple } };
static long sz_sched(int tier) { return tier ? fam_total(FST, 2) : fam_total(FSQ, 3); }
static void dec_sched(int tier, long idx, vcase *c) { if (tier) { fam_decode(FST, 2, idx, c); c->lwork = 4000000; c->aux3 = 1800; } else { fam_decode(FSQ, 3, idx, c); c->aux3 = 70; } }
static void desc_sched(int tier, char *b, size_t cap) { if (tier) fam_describe(FST, 2, b, cap); else fam_describe(FSQ, 3, b, cap); }

/* ================================================================= C09tsan */
static void *thr_free(void *a) { targ *t = a; uint64_t h = 0; pthread_barrier_wait(t->bar); for (int i = 0; i < t->rounds; i++) { uint64_t o = run_body(t->body); if (i == 0) h = o; else if (o != h) h = 1; } t->out = h; return NULL; }
static void run_tsan(const vcase *c, vres *r)
{
    int a = c->k % NBODY, b = (c->k / NBODY) % NBODY, nthr = 4;
    for (int q = 1; q <= 7; q++) vf_tune[q] = vf_tunings[3][q];
    for (int t = 0; t < 4; t++) vf_T(t);
    compute_solo_inproc();
    pthread_t th[4]; targ ta[4]; pthread_barrier_t bar; pthread_barrier_init(&bar, NULL, nthr);
    for (int t = 0; t < nthr; t++) { ta[t].tid = t; ta[t].body = (t & 1) ? b : a; ta[t].rounds = c->aux2; ta[t].bar = &bar; ta[t].out = 0; pthread_create(&th[t], NULL, thr_free, &ta[t]); }
    for (int t = 0; t < nthr; t++) pthread_join(th[t], NULL);
    pthread_barrier_destroy(&bar);
    WK_ADD(K_TSAN, c->aux2); r->nontrivial = 1; r->outcome = (uint64_t)c->k;
    for (int t = 0; t < nthr; t++) if (ta[t].out != g_solo[ta[t].body]) { wk_fail(r, "output-differs-from-solo", "free-running thread %d (body %d) produced output that differs bit-wise from the same call executed alone", t, ta[t].body); return; }
}
static void s_tsan(const int *d, vcase *c) { int e[2] = { d[0], 0 }; s_pair(e, c); c->aux2 = d[1] ? 50 : 20; }
static const family FTQ[] = { { "78 pairs of bodies, 4 free-running threads (2 per body) behind a barrier, 20 rounds", 2, { NPAIRS, 1 }, s_tsan } };
static const family FTT[] = { { "78 pairs of bodies, 4 free-running threads, {20,50} rounds", 2, { NPAIRS, 2 }, s_tsan } };
static long sz_tsan(int tier) { return tier ? fam_total(FTT, 1) : fam_total(FTQ, 1); }
static void dec_tsan(int tier, long idx, vcase *c) { if (tier) fam_decode(FTT, 1, idx, c); else fam_decode(FTQ, 1, idx, c); }
static void desc_tsan(int tier, char *b, size_t cap) { if (tier) fam_describe(FTT, 1, b, cap); else fam_describe(FTQ, 1, b, cap); }

static const char RULE_SCHED[] = "one case = one thread harness (pair/triple of bodies, preemption bound): every schedule within the bound is executed (depth-first with prefix replay), scheduling points at allocation calls and at every monitored access to memory the running thread does not own; non-trivial = more than one schedule";
static const char RULE_SEQ[] = "every sequence of calls up to the length bound, each call with its own sp_ienv tuning, on 3 heap fill patterns; each call's output is compared bit-for-bit with the same call executed first in a fresh process; non-trivial = length >= 2";
static const char RULE_TSAN[] = "free-running pass: each pair of bodies on 4 threads behind a barrier under the real ThreadSanitizer runtime; any report or output difference is a violation (supporting evidence for the schedule exploration)";
const vf_check vf_checks[] = {
    { "C09sched", sz_sched, dec_sched, run_sched, CNT, RAT, RULE_SCHED, desc_sched },
    { "C09seq", sz_seq, dec_seq, run_seq, CNT, RAT, RULE_SEQ, desc_seq },
    { "C09tsan", sz_tsan, dec_tsan, run_tsan, CNT, RAT, RULE_TSAN, desc_tsan },
};
const int vf_nchecks = 3;
int main(int argc, char **argv)
{
    if (argc >= 4 && !strcmp(argv[1], "C09solo") && !strcmp(argv[2], "--solo")) {
        int b, ti, fb; if (sscanf(argv[3], "%d,%d,%d", &b, &ti, &fb) != 3) return 2;
        wk = calloc(1, sizeof *wk); alarm(20);      /* a body that does not return is an outcome of the caller's case, not a reason to wait forever */
        for (int q = 1; q <= 7; q++) vf_tune[q] = vf_tunings[ti][q];
        vf_fill_byte = fb; int dn = open("/dev/null", 1); int so = dup(1); dup2(dn, 1);
        uint64_t h = run_body(b); fflush(stdout); dup2(so, 1);
        printf("%llx\n", (unsigned long long)h); return 0;
    }
    if (argc >= 2 && (!strcmp(argv[1], "C09sched") || !strcmp(argv[1], "C09tsan"))) wk_fork_per_case = 1;     /* first-use initialisation of process-lifetime state must happen inside the threaded execution */
    return wk_main(argc, argv);
}
