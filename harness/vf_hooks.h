/* Force-included (-include) into every library translation unit of the
 * private verification build.  It only supplies the three user-overridable
 * macros that SRC/slu_util.h guards with #ifndef, so /repo is not modified.
 * Guard: SLU_VERIF (passed on the command line by /verif/Makefile only). */
#ifndef VF_HOOKS_H
#define VF_HOOKS_H
#ifdef SLU_VERIF
#include <stddef.h>
#ifdef __cplusplus
extern "C" {
#endif
void *vf_malloc(size_t size, const char *file, int line, const char *func);
void  vf_free(void *p, const char *file, int line, const char *func);
void  vf_abort(const char *msg);
#ifdef __cplusplus
}
#endif
#define USER_MALLOC(s) vf_malloc((size_t)(s), __FILE__, __LINE__, __func__)
#define USER_FREE(p)   vf_free((void*)(p), __FILE__, __LINE__, __func__)
#define USER_ABORT(m)  vf_abort(m)
#endif
#endif
