#define _GNU_SOURCE
#include "wk.h"
#include <stdarg.h>
#include <unistd.h>
#include <fcntl.h>
#include <signal.h>
#include <time.h>
#include <sys/mman.h>
#include <sys/wait.h>
#include <sys/stat.h>
#include <regex.h>

wk_shm *wk = NULL;
const char *wk_variant = "ref";
int wk_tier = 0;
int wk_verbose = 0;
#ifdef VF_COV
extern void __gcov_dump(void);
#define COVDUMP() __gcov_dump()
#else
#define COVDUMP() ((void)0)
#endif
static int real_stdout = 1;
static const char *log_path = NULL;
int wk_fork_per_case = 0;
static regex_t known_re[8]; static int n_known_re = 0;
static int sig_is_known(const char *sig);
int wk_sig_known(const char *sig) { return sig_is_known(sig); }
static int sig_is_known(const char *sig) { for (int i = 0; i < n_known_re; i++) if (regexec(&known_re[i], sig, 0, NULL, 0) == 0) return 1; return 0; }

int wk_fail(vres *r, const char *sig, const char *fmt, ...)
{
    va_list ap; va_start(ap, fmt); vsnprintf(r->msg, sizeof r->msg, fmt, ap); va_end(ap);
    snprintf(r->sig, sizeof r->sig, "%s", sig);
    r->status = 1;
    return 1;
}

static double now_s(void) { struct timespec ts; clock_gettime(CLOCK_MONOTONIC, &ts); return ts.tv_sec + 1e-9 * ts.tv_nsec; }

static void add_outcome(uint64_t h)
{
    if (!h) h = 1;
    uint32_t i = (uint32_t)(h * 0x9E3779B97F4A7C15ull >> 45) & (WK_OUTCAP - 1);
    for (unsigned probe = 0; probe < WK_OUTCAP; probe++) {
        if (wk->outcomes[i] == h) return;
        if (wk->outcomes[i] == 0) { if (wk->noutcomes >= (long)(WK_OUTCAP * 3 / 4)) return; wk->outcomes[i] = h; wk->noutcomes++; return; }
        i = (i + 1) & (WK_OUTCAP - 1);
    }
}

static void add_failure(const char *sig, const char *casetxt, const char *msg)
{
    int k;
    for (k = 0; k < wk->nclass; k++) if (!strcmp(wk->cls[k].sig, sig)) break;
    if (k == wk->nclass) {
        if (wk->nclass >= WK_NCLASS) k = WK_NCLASS - 1;   /* overflow bucket: last class */
        else { wk->nclass++; snprintf(wk->cls[k].sig, sizeof wk->cls[k].sig, "%s", sig); wk->cls[k].count = 0; wk->cls[k].nex = 0; }
    }
    wk->cls[k].count++;
    if (wk->cls[k].nex < WK_NEX) {
        int e = wk->cls[k].nex++;
        snprintf(wk->cls[k].ex_case[e], sizeof wk->cls[k].ex_case[e], "%s", casetxt);
        snprintf(wk->cls[k].ex_msg[e], sizeof wk->cls[k].ex_msg[e], "%s", msg);
    }
}

static void crash_cb(int sig, const char *where)
{
    wk->crash_sig = sig;
    snprintf(wk->where, sizeof wk->where, "%s", where);
}

static void jstr(FILE *f, const char *s)
{
    fputc('"', f);
    for (; *s; s++) {
        unsigned char c = (unsigned char)*s;
        if (c == '"' || c == '\\') { fputc('\\', f); fputc(c, f); }
        else if (c < 0x20) fprintf(f, "\\u%04x", c);
        else fputc(c, f);
    }
    fputc('"', f);
}

static const vf_check *find_check(const char *name)
{
    for (int i = 0; i < vf_nchecks; i++) if (!strcmp(vf_checks[i].name, name)) return &vf_checks[i];
    return NULL;
}

static void run_one(const vf_check *ck, const vcase *c, vres *r, int percase)
{
    memset(r, 0, sizeof *r);
    vf_reset_case();
    vf_fill_byte = c->fillb;
    vf_pat_gen = c->gen;
    for (int i = 1; i <= 7; i++) vf_tune[i] = c->tune[i];
    wk->cur_flags = 0; wk->cur_phase = 0;
    long live0 = vf_live_count();
    alarm(percase);
    if (setjmp(vf_abort_jmp) == 0) {
        vf_abort_armed = 1;
        ck->run(c, r);
        vf_abort_armed = 0;
    } else {
        /* library called ABORT(): an outcome; reclaim the case's blocks */
        if (r->status == 0 || r->sig[0] == 0) wk_fail(r, "abort", "library called ABORT: %s", vf_abort_msg);
        vf_release_all();
    }
    alarm(0);
    vf_check_redzones();
    if (vf_n_overrun && r->status != 1) { r->status = 1; snprintf(r->sig, sizeof r->sig, "heap-overrun"); snprintf(r->msg, sizeof r->msg, "%s", vf_last_overrun); }
    if (r->status == 0 && vf_live_count() != live0) {
        /* harness bookkeeping error or a leak the check did not judge: keep the ledger clean for the next case */
        vf_release_all();
    }
}

/* extract function names from a sanitizer report appended to the log */
static void sanitizer_where(long from, char *where, size_t cap, char *kind, size_t kcap)
{
    where[0] = 0; kind[0] = 0;
    if (!log_path) return;
    FILE *f = fopen(log_path, "r"); if (!f) return;
    fseek(f, from, SEEK_SET);
    char line[1024]; size_t off = 0; int frames = 0, stacks = 0;
    while (fgets(line, sizeof line, f)) {
        char *p;
        if ((p = strstr(line, "ERROR: AddressSanitizer: ")) && !kind[0]) { sscanf(p + 25, "%63s", kind); }
        if ((p = strstr(line, "runtime error: ")) && !kind[0]) { snprintf(kind, kcap, "ubsan"); }
        if ((p = strstr(line, "WARNING: ThreadSanitizer: ")) && !kind[0]) { snprintf(kind, kcap, "tsan-%.40s", p + 26); for (char *q = kind; *q; q++) if (*q == ' ' || *q == '\n' || *q == '(') { *q = (*q == ' ') ? '-' : 0; if (!*q) break; } }
        if ((p = strstr(line, " in ")) && strstr(line, "    #") && stacks < 1) {
            char fn[128]; if (sscanf(p + 4, "%127s", fn) == 1 && frames < 8) {
                if (strncmp(fn, "__", 2) && strcmp(fn, "main")) { off += snprintf(where + off, cap - off, "%s%s", off ? "<" : "", fn); frames++; }
            }
        } else if (frames > 0 && line[0] == '\n') stacks++;
        if (off + 130 > cap) break;
    }
    fclose(f);
}

int wk_main(int argc, char **argv)
{
    if (argc < 2) { fprintf(stderr, "usage: %s <check> [--tier quick|thorough] [--shard s --nshards N] [--out file] [--deadline s] [--percase s] [--variant v] | --replay-case '<text>' | --size\n", argv[0]); return 2; }
    const vf_check *ck = find_check(argv[1]);
    if (!ck) { fprintf(stderr, "unknown check %s\n", argv[1]); return 2; }
    int shard = 0, nshards = 1, percase = 5, want_size = 0; double deadline = 1e9; const char *out = NULL, *replay = NULL;
    long maxfail = 400;
    for (int i = 2; i < argc; i++) {
        if (!strcmp(argv[i], "--tier") && i + 1 < argc) wk_tier = !strcmp(argv[++i], "thorough");
        else if (!strcmp(argv[i], "--shard") && i + 1 < argc) shard = atoi(argv[++i]);
        else if (!strcmp(argv[i], "--nshards") && i + 1 < argc) nshards = atoi(argv[++i]);
        else if (!strcmp(argv[i], "--out") && i + 1 < argc) out = argv[++i];
        else if (!strcmp(argv[i], "--log") && i + 1 < argc) log_path = argv[++i];
        else if (!strcmp(argv[i], "--deadline") && i + 1 < argc) deadline = atof(argv[++i]);
        else if (!strcmp(argv[i], "--percase") && i + 1 < argc) percase = atoi(argv[++i]);
        else if (!strcmp(argv[i], "--variant") && i + 1 < argc) wk_variant = argv[++i];
        else if (!strcmp(argv[i], "--replay-case") && i + 1 < argc) replay = argv[++i];
        else if (!strcmp(argv[i], "--known-sig") && i + 1 < argc) { if (n_known_re < 8 && regcomp(&known_re[n_known_re], argv[++i], REG_EXTENDED | REG_NOSUB) == 0) n_known_re++; }
        else if (!strcmp(argv[i], "--size")) want_size = 1;
        else { fprintf(stderr, "bad arg %s\n", argv[i]); return 2; }
    }
    if (want_size) { printf("%ld\n", ck->size(wk_tier)); return 0; }

    wk = mmap(NULL, sizeof *wk, PROT_READ | PROT_WRITE, MAP_SHARED | MAP_ANONYMOUS, -1, 0);
    if (wk == MAP_FAILED) { perror("mmap"); return 2; }
    memset((void *)wk, 0, sizeof *wk - sizeof wk->outcomes);

    real_stdout = dup(1);
    int dn = open("/dev/null", O_WRONLY); dup2(dn, 1);
    if (log_path) { int lf = open(log_path, O_WRONLY | O_CREAT | O_APPEND, 0644); if (lf >= 0) dup2(lf, 2); }
    FILE *ro = fdopen(real_stdout, "w");

    if (replay) {
        wk_verbose = 1;
        vcase c; vcase_parse(&c, replay);
        struct stat sb; long from = 0; if (log_path && stat(log_path, &sb) == 0) from = sb.st_size;
        pid_t pid = fork();
        if (pid == 0) {
            vf_install_crash_handlers(crash_cb);
            vres r; run_one(ck, &c, &r, percase * 10);
            /* pass result through shm */
            snprintf(wk->cls[0].sig, sizeof wk->cls[0].sig, "%s", r.sig);
            snprintf(wk->cls[0].ex_msg[0], sizeof wk->cls[0].ex_msg[0], "%s", r.msg);
            wk->cls[0].count = r.status; wk->done = 1;
            fflush(NULL); COVDUMP(); _exit(0);
        }
        int st; waitpid(pid, &st, 0);
        if (wk->done) {
            const char *s = wk->cls[0].count == 0 ? "pass" : wk->cls[0].count == 1 ? "fail" : "skip";
            fprintf(ro, "RESULT status=%s sig=%s msg=%s\n", s, wk->cls[0].sig[0] ? wk->cls[0].sig : "-", wk->cls[0].ex_msg[0]);
        } else {
            char where[512], kind[64]; where[0] = kind[0] = 0;
            if (!wk->where[0]) sanitizer_where(from, where, sizeof where, kind, sizeof kind); else snprintf(where, sizeof where, "%s", wk->where);
            int sg = wk->crash_sig ? wk->crash_sig : (WIFSIGNALED(st) ? WTERMSIG(st) : 0);
            fprintf(ro, "RESULT status=crash sig=crash:%s%s:flags=%d msg=signal %d exit %d where=%s phase=%d\n",
                    kind[0] ? "san:" : "", kind[0] ? kind : (sg == SIGALRM ? "hang" : sg == SIGSEGV ? "SIGSEGV" : sg == SIGABRT ? "SIGABRT" : sg == SIGFPE ? "SIGFPE" : sg == SIGBUS ? "SIGBUS" : "other"),
                    wk->cur_flags, sg, WIFEXITED(st) ? WEXITSTATUS(st) : -1, where, wk->cur_phase);
        }
        fflush(ro);
        return 0;
    }

    long size = ck->size(wk_tier);
    double t0 = now_s();
    long next = shard;
    while (next < size) {
        struct stat sb; long from = 0; if (log_path && stat(log_path, &sb) == 0) from = sb.st_size;
        wk->done = 0; wk->deadline_hit = 0; wk->one_case_done = 0; wk->crash_sig = 0; wk->where[0] = 0; wk->cur_idx = -1;
        pid_t pid = fork();
        if (pid < 0) { perror("fork"); return 2; }
        if (pid == 0) {
            vf_install_crash_handlers(crash_cb);
            vres r; vcase c; char txt[700];
            long iter = 0;
            for (long idx = next; idx < size; idx += nshards, iter++) {
                if ((iter & 15) == 0 && now_s() - t0 > deadline) { wk->deadline_hit = 1; wk->resume_idx = idx; fflush(NULL); COVDUMP(); _exit(0); }
                wk->cur_idx = idx;
                ck->decode(wk_tier, idx, &c); c.idx = idx; snprintf(c.variant, sizeof c.variant, "%s", wk_variant);
                run_one(ck, &c, &r, percase);
                if (r.status == 2) { wk->skipped++; if (wk_fork_per_case) { wk->resume_idx = idx + nshards; wk->one_case_done = 1; fflush(NULL); COVDUMP(); _exit(0); } continue; }
                wk->evaluations++;
                if (r.nontrivial) { wk->nontrivial++; if (wk->nsamples < 4 && (iter % 97 == 0 || wk->nsamples == 0)) { vcase_format(&c, txt, sizeof txt); snprintf(wk->samples[wk->nsamples++], 640, "%s", txt); } }
                add_outcome(r.outcome);
                if (r.status == 1) {
                    wk->nfail++;
                    vcase_format(&c, txt, sizeof txt);
                    add_failure(r.sig[0] ? r.sig : "unclassified", txt, r.msg);
                    if (sig_is_known(r.sig)) wk->counters[WK_NCOUNT - 1]++;
                    if (wk->nfail - wk->counters[WK_NCOUNT - 1] >= maxfail) { wk->deadline_hit = 2; wk->resume_idx = idx + nshards; fflush(NULL); COVDUMP(); _exit(0); }
                }
                if (wk_fork_per_case && idx + nshards < size) { wk->resume_idx = idx + nshards; wk->one_case_done = 1; fflush(NULL); COVDUMP(); _exit(0); }
            }
            wk->done = 1; fflush(NULL); COVDUMP(); _exit(0);
        }
        int st; waitpid(pid, &st, 0);
        if (wk->one_case_done && !wk->deadline_hit && !wk->done) { next = wk->resume_idx; if (now_s() - t0 > deadline) { wk->deadline_hit = 1; break; } continue; }
        if (wk->done || wk->deadline_hit) break;
        /* the child died while running case cur_idx */
        long ci = wk->cur_idx;
        if (ci < 0) { fprintf(stderr, "worker died before its first case (status %d)\n", st); return 2; }
        vcase c; char txt[700], sig[96], msg[480], where[512], kind[64];
        ck->decode(wk_tier, ci, &c); c.idx = ci; snprintf(c.variant, sizeof c.variant, "%s", wk_variant);
        vcase_format(&c, txt, sizeof txt);
        where[0] = kind[0] = 0;
        if (wk->where[0]) snprintf(where, sizeof where, "%s", wk->where); else sanitizer_where(from, where, sizeof where, kind, sizeof kind);
        int sg = wk->crash_sig ? wk->crash_sig : (WIFSIGNALED(st) ? WTERMSIG(st) : 0);
        char top[96]; snprintf(top, sizeof top, "%s", where); char *lt = strchr(top, '<'); if (lt) *lt = 0;
        snprintf(sig, sizeof sig, "crash:%s%s:%s:flags=%d", kind[0] ? "san:" : "",
                 kind[0] ? kind : (sg == SIGALRM ? "hang" : sg == SIGSEGV ? "SIGSEGV" : sg == SIGABRT ? "SIGABRT" : sg == SIGFPE ? "SIGFPE" : sg == SIGBUS ? "SIGBUS" : "other"), top, wk->cur_flags);
        snprintf(msg, sizeof msg, "signal %d exit %d where=%s phase=%d", sg, WIFEXITED(st) ? WEXITSTATUS(st) : -1, where, wk->cur_phase);
        wk->evaluations++; wk->ncrash++; wk->nfail++;
        add_failure(sig, txt, msg);
        if (sig_is_known(sig)) wk->counters[WK_NCOUNT - 1]++;
        next = ci + nshards;
        if (wk->nfail - wk->counters[WK_NCOUNT - 1] >= maxfail) { wk->deadline_hit = 2; wk->resume_idx = next; break; }
        if (wk->ncrash > 2000000 || now_s() - t0 > deadline) { wk->deadline_hit = 1; wk->resume_idx = next; break; }
    }

    FILE *f = out ? fopen(out, "w") : ro;
    if (!f) { perror("open out"); return 2; }
    fprintf(f, "{\"check\":"); jstr(f, ck->name);
    fprintf(f, ",\"variant\":"); jstr(f, wk_variant);
    fprintf(f, ",\"shard\":%d,\"nshards\":%d,\"space\":%ld,\"complete\":%s,\"stop_reason\":%d,\"resume_idx\":%ld", shard, nshards, size,
            (wk->deadline_hit ? "false" : "true"), wk->deadline_hit, wk->resume_idx);
    fprintf(f, ",\"evaluations\":%ld,\"nontrivial\":%ld,\"skipped\":%ld,\"nfail\":%ld,\"ncrash\":%ld,\"noutcomes\":%ld,\"wall_s\":%.3f",
            wk->evaluations, wk->nontrivial, wk->skipped, wk->nfail, wk->ncrash, wk->noutcomes, now_s() - t0);
    fprintf(f, ",\"rule\":"); jstr(f, ck->rule ? ck->rule : "");
    char desc[4096]; desc[0] = 0; if (ck->describe) ck->describe(wk_tier, desc, sizeof desc);
    fprintf(f, ",\"bounds\":%s", desc[0] ? desc : "{}");
    fprintf(f, ",\"counters\":{");
    if (ck->counter_names) for (int i = 0; ck->counter_names[i] && i < WK_NCOUNT; i++) { if (i) fputc(',', f); jstr(f, ck->counter_names[i]); fprintf(f, ":%ld", wk->counters[i]); }
    fprintf(f, "},\"max_ratio\":{");
    if (ck->ratio_names) for (int i = 0; ck->ratio_names[i] && i < WK_NRATIO; i++) { if (i) fputc(',', f); jstr(f, ck->ratio_names[i]); fprintf(f, ":%.6g", wk->max_ratio[i]); }
    fprintf(f, "},\"samples\":[");
    for (int i = 0; i < wk->nsamples; i++) { if (i) fputc(',', f); jstr(f, wk->samples[i]); }
    fprintf(f, "],\"classes\":[");
    for (int k = 0; k < wk->nclass; k++) {
        if (k) fputc(',', f);
        fprintf(f, "{\"sig\":"); jstr(f, wk->cls[k].sig); fprintf(f, ",\"count\":%ld,\"examples\":[", wk->cls[k].count);
        for (int e = 0; e < wk->cls[k].nex; e++) { if (e) fputc(',', f); fprintf(f, "{\"case\":"); jstr(f, wk->cls[k].ex_case[e]); fprintf(f, ",\"msg\":"); jstr(f, wk->cls[k].ex_msg[e]); fputc('}', f); }
        fprintf(f, "]}");
    }
    fprintf(f, "]}\n");
    if (out) {
        fclose(f);
        char op[1024]; snprintf(op, sizeof op, "%s.outcomes", out);
        FILE *g = fopen(op, "wb");
        if (g) { for (unsigned i = 0; i < WK_OUTCAP; i++) if (wk->outcomes[i]) fwrite(&wk->outcomes[i], 8, 1, g); fclose(g); }
    }
    return 0;
}
