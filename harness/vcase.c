/* Case records: one line of key=value pairs fully describes an execution. */
#include "vf.h"
#include <stddef.h>

typedef struct { const char *key; size_t off; int kind; } fielddesc; /* kind 0 int, 1 u64 hex, 2 double, 3 long */
#define FI(k) { #k, offsetof(vcase, k), 0 }
static const fielddesc fields[] = {
    FI(prop), FI(fam), FI(type), FI(m), FI(n), { "pat", offsetof(vcase, pat), 1 }, FI(gen),
    FI(vals), FI(colperm), FI(permid), FI(sym), FI(stor), FI(nrhs), FI(ldbx), FI(trans), FI(equil), FI(refine), FI(rhs), FI(fillb),
    FI(cond), FI(growth), FI(fact), FI(lworkmode), FI(align), FI(fest), FI(k), FI(aux), FI(aux2), FI(aux3),
    { "lwork", offsetof(vcase, lwork), 3 }, { "u", offsetof(vcase, u), 2 }, { "idx", offsetof(vcase, idx), 3 },
};
#define NF (sizeof fields / sizeof *fields)

void vcase_init(vcase *c)
{
    memset(c, 0, sizeof *c);
    c->type = TD; c->u = 1.0; c->nrhs = 1; c->fillb = 0xA5; c->colperm = 3;
    for (int i = 1; i <= 7; i++) c->tune[i] = vf_tunings[0][i];
    strcpy(c->variant, "ref");
}
int vcase_format(const vcase *c, char *buf, size_t cap)
{
    size_t o = 0;
    for (size_t f = 0; f < NF; f++) {
        const char *p = (const char *)c + fields[f].off;
        switch (fields[f].kind) {
        case 0: o += snprintf(buf + o, cap - o, "%s=%d ", fields[f].key, *(const int *)p); break;
        case 1: o += snprintf(buf + o, cap - o, "%s=0x%llx ", fields[f].key, (unsigned long long)*(const uint64_t *)p); break;
        case 2: o += snprintf(buf + o, cap - o, "%s=%.17g ", fields[f].key, *(const double *)p); break;
        case 3: o += snprintf(buf + o, cap - o, "%s=%ld ", fields[f].key, *(const long *)p); break;
        }
        if (o >= cap) return -1;
    }
    o += snprintf(buf + o, cap - o, "tune=%d,%d,%d,%d,%d,%d,%d variant=%s", c->tune[1], c->tune[2], c->tune[3], c->tune[4], c->tune[5], c->tune[6], c->tune[7], c->variant);
    return o < cap ? (int)o : -1;
}
int vcase_parse(vcase *c, const char *line)
{
    vcase_init(c);
    char tmp[2048]; snprintf(tmp, sizeof tmp, "%s", line);
    for (char *tok = strtok(tmp, " \t\n"); tok; tok = strtok(NULL, " \t\n")) {
        char *eq = strchr(tok, '='); if (!eq) continue;
        *eq = 0; const char *val = eq + 1;
        if (!strcmp(tok, "tune")) { sscanf(val, "%d,%d,%d,%d,%d,%d,%d", &c->tune[1], &c->tune[2], &c->tune[3], &c->tune[4], &c->tune[5], &c->tune[6], &c->tune[7]); continue; }
        if (!strcmp(tok, "variant")) { snprintf(c->variant, sizeof c->variant, "%s", val); continue; }
        for (size_t f = 0; f < NF; f++) if (!strcmp(tok, fields[f].key)) {
            char *p = (char *)c + fields[f].off;
            switch (fields[f].kind) {
            case 0: *(int *)p = atoi(val); break;
            case 1: *(uint64_t *)p = strtoull(val, NULL, 0); break;
            case 2: *(double *)p = strtod(val, NULL); break;
            case 3: *(long *)p = atol(val); break;
            }
            break;
        }
    }
    return 0;
}
