/* Engine E3: C19 (no memory error or leak over any documented API lifecycle).
 * Lifecycles are words of a typestate automaton taken from the routine headers and the EXAMPLE programs; every word up to
 * the stated depth is executed on the real library.  Oracle: no sanitizer report (asan build), no free of a foreign/freed
 * pointer, red zones intact, and once the caller has destroyed what it was handed the allocation ledger is empty. */
#define _GNU_SOURCE
#include "xs.h"
#include <sys/mman.h>

static const char *const CNT[] = { "lifecycles", "states", "transitions", "pipeline_words", "driver_words", "singular_returns", "oom_returns", "size_queries", "fault_injected", "workspace_runs", "ilu_calls", "refactor_reuse", "solves", "refines", "condition_estimates", "exact_capacity_LSUB", "exact_capacity_LUSUP", "exact_capacity_UCOL", NULL };
enum { K_LIFE, K_STATES, K_TRANS, K_PIPE, K_DRV, K_SING, K_OOM, K_QUERY, K_FAULT, K_WS, K_ILU, K_REUSE, K_SOLVE, K_REFINE, K_COND, K_XLSUB, K_XLUSUP, K_XUCOL };
static const char *const RAT[] = { NULL };

static int g_tagQ, g_tagO, g_tagS;   /* what kinds of early returns the lifecycle contained (size query, out of memory, singular) */
static unsigned char *g_ws = NULL;
static unsigned char *ws(void) { if (!g_ws) { g_ws = mmap(NULL, 1 << 20, PROT_READ | PROT_WRITE, MAP_PRIVATE | MAP_ANONYMOUS, -1, 0); memset(g_ws, 0xA5, 1 << 20); } return g_ws; }

/* matrices: 6 fixed 6x6 inputs incl. an exactly singular one */
static void pick_matrix(vcase *c, int k)
{
    static const int base[] = { 3, 1, 8, 2, 5, 6 };
    c->n = c->m = 6; c->pat = base_pattern(6, base[k]); c->vals = (k == 5) ? 0 : (k % 2 ? 1 : 2);   /* k=5: dense all-ones = exactly singular */
}

/* leak signature: distinct allocation sites of the blocks still live */
static void leak_sig(long base_serial, char *sig, size_t scap, char *msg, size_t mcap)
{
    vf_block bl[64]; int nb = vf_live_list(bl, 64); size_t o = 0, m = 0; const char *seen[16]; int ns = 0;
    o += snprintf(sig + o, scap - o, "leak:");
    for (int i = 0; i < nb; i++) {
        if (bl[i].serial <= base_serial) continue;
        const char *f = bl[i].func ? bl[i].func : "?"; int dup = 0;
        for (int k = 0; k < ns; k++) if (!strcmp(seen[k], f)) dup = 1;
        if (!dup && ns < 16) { seen[ns++] = f; if (o + strlen(f) + 2 < scap) o += snprintf(sig + o, scap - o, "%s%s", ns > 1 ? "+" : "", f); }
        const char *sl = strrchr(bl[i].file, '/');
        if (m + 60 < mcap) m += snprintf(msg + m, mcap - m, " %s:%d(%s,%zuB)", sl ? sl + 1 : bl[i].file, bl[i].line, f, bl[i].size);
    }
}

/* =================================================================== pipeline lifecycles
 * create A, get_perm_c(ord), sp_preorder, xgstrf(mode), up to two of {xgstrs N, xgstrs T, xgscon, xgsrfs, growth+query},
 * optional refactorization with SamePattern_SameRowPerm, a final solve, destroy everything the documented way. */
enum { GM_LIB, GM_WS, GM_WSSMALL, GM_QUERY, GM_FAULT2, GM_FAULT5, GM_FAULT5S, GM_FAULT6S, GM_N };
enum { OP_NONE, OP_SOLVE_N, OP_SOLVE_T, OP_CON, OP_RFS, OP_GROWTH, OP_N };
static int pipeline(const vcase *c, const int *d, vres *r)
{
    const vf_type *T = vf_T(c->type); int n = c->n;
    int ord = d[0], gmode = d[1], op1 = d[2], op2 = d[3], refac = d[4], op3 = d[5];
    dmat A, B; make_values(T, n, n, c->pat, c->vals, &A);
    vf_sparse S; sp_from_dense(&S, T, &A, 0);
    make_rhs(T, &A, 0, 1, 2, &B); vf_dense Bd, Xd; dn_from_dense(&Bd, T, &B, n, 0.0); dn_from_dense(&Xd, T, &B, n, 0.0);
    int *perm_c = int32Malloc(n), *perm_r = int32Malloc(n), *etree = int32Malloc(n);
    superlu_options_t opt; set_default_options(&opt); opt.PrintStat = NO; opt.ColPerm = (colperm_t[]){ NATURAL, MMD_ATA, MMD_AT_PLUS_A, COLAMD }[ord];
    SuperLUStat_t st; StatInit(&st);
    SuperMatrix AC, L, U; memset(&AC, 0, sizeof AC); memset(&L, 0, sizeof L); memset(&U, 0, sizeof U);
    GlobalLU_t Glu; memset(&Glu, 0, sizeof Glu);
    get_perm_c(opt.ColPerm, &S.A, perm_c);
    sp_preorder(&opt, &S.A, perm_c, etree, &AC);
    void *work = NULL; int_t lwork = 0, info = -99;
    if (gmode == GM_WS) { work = ws(); lwork = 1 << 18; WK_COUNT(K_WS); } else if (gmode == GM_WSSMALL) { work = ws(); lwork = 300 + 40 * (c->k % 8); WK_COUNT(K_WS); } else if (gmode == GM_QUERY) { lwork = -1; WK_COUNT(K_QUERY); }
    if (gmode >= GM_FAULT2) { vf_fail_k = gmode == GM_FAULT2 ? 2 : gmode == GM_FAULT6S ? 6 : 5; vf_fail_sticky = (gmode >= GM_FAULT5S); vf_fail_func = "expand"; vf_fail_seen = 0; WK_COUNT(K_FAULT); }
    WK_SET_FLAGS((c->vals == 0 ? WK_FLAG_SINGULAR : 0) | (gmode >= GM_WSSMALL ? WK_FLAG_FAULT : 0));
    int have_LU = 0, user = (work != NULL && lwork > 0);
    T->gstrf(&opt, &AC, sp_ienv(2), sp_ienv(1), etree, work, lwork, perm_c, perm_r, &L, &U, &Glu, &st, &info);
    vf_fail_k = 0; vf_fail_sticky = 0;
    WK_COUNT(K_TRANS);
    if (info >= 0 && info <= n && gmode != GM_QUERY) have_LU = 1;
    if (gmode == GM_QUERY) g_tagQ = 1;
    if (info > n && gmode != GM_QUERY) { WK_COUNT(K_OOM); g_tagO = 1; }
    if (info > 0 && info <= n) { WK_COUNT(K_SING); g_tagS = 1; }
    if (have_LU && info == 0) {
        /* exact-capacity statistics */
        const SCformat *Ls = L.Store; const NCformat *Us = U.Store;
        if ((long)Ls->rowind_colptr[n] == (long)Glu.nzlmax) WK_COUNT(K_XLSUB);
        if ((long)Ls->nzval_colptr[n] == (long)Glu.nzlumax) WK_COUNT(K_XLUSUP);
        if ((long)Us->colptr[n] == (long)Glu.nzumax) WK_COUNT(K_XUCOL);
        int ops[3] = { op1, op2, op3 };
        for (int q = 0; q < 3; q++) {
            if (q == 2 && refac) {
                /* re-factor reusing ordering, row permutation and storage */
                superlu_options_t o2 = opt; o2.Fact = SamePattern_SameRowPerm;
                if (refac == 2) for (int_t k = 0; k < S.nnz; k++) T->st(S.nzval, k, (double _Complex)(T->ld(S.nzval, k) * (xr)(1 + 0.37 * (k % 5))));
                SuperMatrix AC2; memset(&AC2, 0, sizeof AC2);
                Destroy_CompCol_Permuted(&AC); sp_preorder(&o2, &S.A, perm_c, etree, &AC2); AC = AC2;
                T->gstrf(&o2, &AC, sp_ienv(2), sp_ienv(1), etree, work, lwork, perm_c, perm_r, &L, &U, &Glu, &st, &info);
                WK_COUNT(K_REUSE); WK_COUNT(K_TRANS);
                if (info > n) { have_LU = 0; WK_COUNT(K_OOM); g_tagO = 1; break; }
                if (info > 0) break;
            }
            int op = ops[q], i2 = 0;
            switch (op) {
            case OP_SOLVE_N: case OP_SOLVE_T: T->gstrs(op == OP_SOLVE_N ? NOTRANS : TRANS, &L, &U, perm_c, perm_r, &Xd.M, &st, &i2); WK_COUNT(K_SOLVE); WK_COUNT(K_TRANS); break;
            case OP_CON: { char rc[8]; T->gscon("1", &L, &U, 1.0, rc, &st, &i2); T->gscon("I", &L, &U, 1.0, rc, &st, &i2); WK_COUNT(K_COND); WK_COUNT(K_TRANS); } break;
            case OP_RFS: { char fe[NMAX * 8], be[NMAX * 8], eq = 'N', Rb[NMAX * 8], Cb[NMAX * 8]; memcpy(Xd.val, Bd.val, T->esz * (size_t)n * 2);
                           T->gstrs(NOTRANS, &L, &U, perm_c, perm_r, &Xd.M, &st, &i2); T->gsrfs(NOTRANS, &S.A, &L, &U, perm_c, perm_r, &eq, Rb, Cb, &Bd.M, &Xd.M, fe, be, &st, &i2); WK_COUNT(K_REFINE); WK_COUNT(K_TRANS); } break;
            case OP_GROWTH: { mem_usage_t mu; T->PivotGrowth(n, &S.A, perm_c, &L, &U); T->QuerySpace(&L, &U, &mu); WK_COUNT(K_TRANS); } break;
            default: break;
            }
        }
    }
    /* destroy everything the caller was handed, the documented way */
    if (have_LU) { if (!user) { Destroy_SuperNode_Matrix(&L); Destroy_CompCol_Matrix(&U); } else { Destroy_SuperMatrix_Store(&L); Destroy_SuperMatrix_Store(&U); } }
    Destroy_CompCol_Permuted(&AC);
    StatFree(&st); SUPERLU_FREE(perm_c); SUPERLU_FREE(perm_r); SUPERLU_FREE(etree);
    sp_destroy(&S); dn_destroy(&Bd); dn_destroy(&Xd);
    (void)r;
    return 0;
}

/* =================================================================== driver lifecycles
 * up to three consecutive driver calls on one session, then destroy. */
enum { DK_NONE, DK_GSSV, DK_X_LIB, DK_X_WS, DK_X_WSSMALL, DK_X_QUERY, DK_X_SAMEPATTERN, DK_X_SAMEROWPERM, DK_X_FACTORED_T, DK_I_LIB, DK_I_QUERY, DK_I_WSSMALL, DK_X_FAULT3, DK_X_FAULT5S, DK_I_FAULT5S, DK_N };
static int drivers(const vcase *c, const int *d, vres *r)
{
    const vf_type *T = vf_T(c->type); int n = c->n;
    xs s; xs_init(&s, T, n, c->pat, c->vals, c->stor);
    dmat B; make_rhs(T, &s.A_orig, 0, 1, 2, &B); xs_set_rhs(&s, &B, 0, 0);
    memset(&s.Glu, 0, sizeof s.Glu);
    int ok_factors = 0, was_ilu = 0;
    for (int q = 0; q < 3; q++) {
        int kind = d[q]; if (kind == DK_NONE) continue;
        superlu_options_t opt; vcase cc = *c; cc.fact = 0; cc.trans = 0; cc.equil = (c->k & 1); cc.refine = (c->k >> 1) & 1; cc.cond = 1; cc.growth = 1;
        int ilu = (kind == DK_I_LIB || kind == DK_I_QUERY || kind == DK_I_WSSMALL || kind == DK_I_FAULT5S);
        if (kind == DK_X_SAMEPATTERN || kind == DK_X_SAMEROWPERM || kind == DK_X_FACTORED_T) { if (!ok_factors || was_ilu) { xs_destroy(&s); return 2; } }   /* documented precondition not met: not a lifecycle */
        if (kind == DK_GSSV) {
            if (s.have_LU) xs_free_LU(&s);
            if (s.equed[0] != 'N' && s.equed[0] != 'X') { xs_destroy(&s); return 2; }     /* A was equilibrated in place by an earlier expert call: a fresh simple-driver call on it is a different problem */
            SuperLUStat_t st; StatInit(&st); int_t info = -99; fill_options(&cc, &opt, s.perm_c, n);
            WK_SET_FLAGS(c->vals == 0 ? WK_FLAG_SINGULAR : 0);
            T->gssv(&opt, &s.S.A, s.perm_c, s.perm_r, &s.L, &s.U, &s.B.M, &st, &info); StatFree(&st);
            WK_COUNT(K_TRANS);
            s.have_LU = (info >= 0 && info <= n); s.lu_lwork = 0; ok_factors = 0;      /* gssv does not hand back etree/Glu: no reuse */
            if (info > 0 && info <= n) { WK_COUNT(K_SING); g_tagS = 1; }
            if (info > n) g_tagO = 1;
            xs_set_rhs(&s, &B, 0, 0);
            continue;
        }
        if (ilu) { ilu_set_default_options(&opt); opt.PrintStat = NO; opt.Equil = cc.equil ? YES : NO; opt.RowPerm = (c->k & 4) ? LargeDiag_MC64 : NOROWPERM; opt.ConditionNumber = YES; opt.PivotGrowth = YES; WK_COUNT(K_ILU); }
        else xs_options(&cc, &opt, &s);
        if (s.ilu != ilu && s.have_LU) xs_free_LU(&s);
        s.ilu = ilu;
        s.work = NULL; s.lwork = 0;
        switch (kind) {
        case DK_X_WS: s.work = ws(); s.lwork = 1 << 18; WK_COUNT(K_WS); break;
        case DK_X_WSSMALL: case DK_I_WSSMALL: s.work = ws(); s.lwork = 300 + 40 * (c->k % 8); WK_COUNT(K_WS); break;
        case DK_X_QUERY: case DK_I_QUERY: s.lwork = -1; WK_COUNT(K_QUERY); break;
        case DK_X_SAMEPATTERN: opt.Fact = SamePattern; break;
        case DK_X_SAMEROWPERM: opt.Fact = SamePattern_SameRowPerm; s.work = s.lu_lwork ? ws() : NULL; s.lwork = s.lu_lwork; WK_COUNT(K_REUSE); break;
        case DK_X_FACTORED_T: opt.Fact = FACTORED; opt.Trans = TRANS; s.lwork = s.lu_lwork; s.work = s.lu_lwork ? ws() : NULL; break;
        case DK_X_FAULT3: vf_fail_k = 3; vf_fail_func = "expand"; vf_fail_seen = 0; WK_COUNT(K_FAULT); break;
        case DK_X_FAULT5S: case DK_I_FAULT5S: vf_fail_k = 5; vf_fail_sticky = 1; vf_fail_func = "expand"; vf_fail_seen = 0; WK_COUNT(K_FAULT); break;
        default: break;
        }
        if (opt.Fact == DOFACT && s.equed[0] != 'N' && s.equed[0] != 'X' && s.lwork != -1) { /* values were scaled in place by the previous call: restore the caller's matrix (a new problem) */
            for (int j = 0; j < n; j++) for (int_t k = s.S.ptr[j]; k < s.S.ptr[j + 1]; k++) { int i = (int)s.S.ind[k]; T->st(s.S.nzval, k, (double _Complex)(c->stor == 0 ? DM(&s.A_orig, i, j) : DM(&s.A_orig, j, i))); }
        }
        if (opt.Fact == SamePattern || opt.Fact == SamePattern_SameRowPerm) {
            for (int j = 0; j < n; j++) for (int_t k = s.S.ptr[j]; k < s.S.ptr[j + 1]; k++) { int i = (int)s.S.ind[k]; xc v = (c->stor == 0 ? DM(&s.A_orig, i, j) : DM(&s.A_orig, j, i)); T->st(s.S.nzval, k, (double _Complex)(v * (xr)(1 + 0.25 * ((k + q) % 3)))); }
        }
        WK_SET_FLAGS((c->vals == 0 ? WK_FLAG_SINGULAR : 0) | ((kind == DK_X_WSSMALL || kind == DK_I_WSSMALL || kind >= DK_X_FAULT3) ? WK_FLAG_FAULT : 0));
        xs_call(&s, &opt);
        vf_fail_k = 0; vf_fail_sticky = 0;
        WK_COUNT(K_TRANS);
        long info = s.info;
        if (s.lwork == -1) g_tagQ = 1;
        if (s.lwork != -1 && opt.Fact != FACTORED) { ok_factors = (info == 0 || info == n + 1); was_ilu = ilu; if (info > n + 1) { WK_COUNT(K_OOM); g_tagO = 1; } if (info > 0 && info <= n && !ilu) { WK_COUNT(K_SING); g_tagS = 1; } }
        if (info > n + 1) { ok_factors = 0; }
        xs_set_rhs(&s, &B, 0, 0);
    }
    xs_destroy(&s);
    (void)r;
    return 0;
}

static void run_C19(const vcase *c, vres *r)
{
    int dig[8]; long w = c->lwork;
    if (c->aux == 0) { int dims[6] = { 4, GM_N, OP_N, OP_N, 3, OP_N }; wk_unrank(w, dims, 6, dig); }
    else { int dims[3] = { DK_N, DK_N, DK_N }; wk_unrank(w, dims, 3, dig); }
    long live0 = vf_live_count(), ser0 = vf_alloc_serial; g_tagQ = g_tagO = g_tagS = 0;
    int rc = c->aux == 0 ? pipeline(c, dig, r) : drivers(c, dig, r);
    if (rc == 2) { r->status = 2; return; }
    WK_COUNT(K_LIFE); WK_COUNT(c->aux == 0 ? K_PIPE : K_DRV); WK_COUNT(K_STATES);
    r->nontrivial = 1; r->outcome = (uint64_t)(vf_alloc_serial - ser0);
    vf_check_redzones();
    if (vf_n_overrun) { wk_fail(r, "heap-overrun", "%s", vf_last_overrun); return; }
    if (vf_n_free_unknown) { wk_fail(r, "bad-free", "%s", vf_last_bad_free); return; }
    if (vf_live_count() != live0) {
        char sg0[96], sg[96], m[380]; m[0] = 0; leak_sig(ser0, sg0, sizeof sg0, m, sizeof m);
        snprintf(sg, sizeof sg, "leak[%s%s%s]%s", g_tagQ ? "Q" : "", g_tagO ? "O" : "", g_tagS ? "S" : "", sg0 + 4);
        wk_fail(r, sg, "%ld block(s) of the library still allocated after the caller destroyed everything it was handed:%s", vf_live_count() - live0, m);
        vf_release_all();
    }
}

static void s19p(const int *d, vcase *c) { pick_matrix(c, d[0]); c->type = d[1]; c->tune[6] = d[2] + 1; set_tune(c, (int[]){ 3, 9, 0 }[d[3]]); c->tune[6] = d[2] + 1; c->fest = d[2] + 1; c->aux = 0; c->lwork = d[4]; c->k = d[2] + d[0]; }
static void s19d(const int *d, vcase *c) { pick_matrix(c, d[0]); c->type = d[1]; set_tune(c, (int[]){ 3, 0 }[d[2]]); c->tune[6] = d[3] ? 1 : 30; c->fest = c->tune[6]; c->aux = 1; c->lwork = d[4]; c->k = d[5]; c->stor = d[6]; c->colperm = 3; c->u = 1.0; c->permid = -1; }
static void s19l(const int *d, vcase *c)   /* many matrices, short words: order, factor (library / workspace), solve, destroy */
{
    c->n = c->m = 6; c->pat = dev1_pattern(6, base_pattern(6, d[0]), d[1]); c->vals = d[1] % 2 ? 1 : 2; c->type = d[2]; set_tune(c, (int[]){ 3, 9 }[d[4]]); c->tune[6] = d[3] + 1; c->fest = d[3] + 1; c->aux = 0; c->k = d[1];
    int ord = d[5], gmode = d[6] ? GM_WS : GM_LIB, op1 = OP_SOLVE_N, op2 = d[6] ? OP_RFS : OP_SOLVE_T, refac = d[1] % 3, op3 = OP_SOLVE_N;
    c->lwork = ((((long)ord * GM_N + gmode) * OP_N + op1) * OP_N + op2) * 3 * OP_N + (long)refac * OP_N + op3;
}
#define NPIPE (4 * GM_N * OP_N * OP_N * 3 * OP_N)
#define NDRV (DK_N * DK_N * DK_N)
static const family F19Q[] = {
    { "short pipeline words on DEV_1(BASE(6)) x type4 x fill estimate{1,2} x tuning2 x ordering4 x {library allocation, workspace}", 7, { 9, 37, 4, 2, 2, 4, 2 }, s19l },
    { "pipeline words: 6 matrices x {d,z..} type4 x fill estimate{1,2,3} x tuning{(2,1,2..),relaxed} x all words (ordering4 x factor-mode8 x op6 x op6 x refactor3 x op6)", 5, { 6, 4, 3, 2, NPIPE }, s19p },
    { "driver words: 6 matrices x type4 x tuning2 x fill{30,1} x all 15^3 three-call words x option-mix4 x storage2", 7, { 6, 4, 2, 2, NDRV, 4, 2 }, s19d },
};
static const family F19T[] = {
    { "short pipeline words on DEV_1(BASE(6)) x type4 x fill estimate{1..4} x tuning2 x ordering4 x {library allocation, workspace}", 7, { 9, 37, 4, 4, 2, 4, 2 }, s19l },
    { "pipeline words: 6 matrices x type4 x fill estimate{1..8} x tuning3 x all words", 5, { 6, 4, 8, 3, NPIPE }, s19p },
    { "driver words: 6 matrices x type4 x tuning2 x fill{30,1} x all three-call words x option-mix8 x storage2", 7, { 6, 4, 2, 2, NDRV, 8, 2 }, s19d },
};
/* sanitizer builds: reduced */
static const family F19S[] = {
    { "short pipeline words on DEV_1(BASE(6)) x {d} x fill estimate{1,2} x tuning2 x ordering4 x {library allocation, workspace}", 7, { 9, 37, 1, 2, 2, 4, 2 }, s19l },
    { "pipeline words: 6 matrices x {d} x fill estimate{1,2} x tuning1 x all words", 5, { 6, 1, 2, 1, NPIPE }, s19p },
    { "driver words: 6 matrices x {d} x tuning1 x fill{30,1} x all words x option-mix2 x storage2", 7, { 6, 1, 1, 2, NDRV, 2, 2 }, s19d },
};
static const family *pick(int tier, int *nf) { if (!strncmp(wk_variant, "asan", 4)) { *nf = 3; return F19S; } if (tier) { *nf = 3; return F19T; } *nf = 3; return F19Q; }
static long sz_19(int tier) { int nf; const family *f = pick(tier, &nf); return fam_total(f, nf); }
static void dec_19(int tier, long idx, vcase *c) { int nf; const family *f = pick(tier, &nf); fam_decode(f, nf, idx, c); if (!strncmp(wk_variant, "asan", 4)) c->type = TD; }
static void desc_19(int tier, char *b, size_t cap) { int nf; const family *f = pick(tier, &nf); fam_describe(f, nf, b, cap); }
static const char RULE19[] = "every word of the lifecycle automaton up to the stated depth (pipeline: order, factor, <=3 operations incl. one refactorization; drivers: three consecutive calls over 13 call kinds) on each listed matrix/type/fill estimate; words whose documented preconditions are not met are skipped; non-trivial = every executed lifecycle";
const vf_check vf_checks[] = { { "C19", sz_19, dec_19, run_C19, CNT, RAT, RULE19, desc_19 } };
const int vf_nchecks = 1;
int main(int argc, char **argv) { return wk_main(argc, argv); }
