/* Engine E1, simple-driver checks: C01 (solution), C02 (factor identity and
 * pivoting), C03 (structure), C04 (exact singularity). */
#include "e1.h"

/* ------------------------------------------------------------------ families */
enum { K_n1, K_dense1, K_bdiag1, K_expand1, K_sing, K_info0 };
static const char *const CNT[] = { "info_zero", "info_singular", "info_other", "nonfinite_x", "multi_col_supernodes", "expansions_seen", "diag_pivots", "offdiag_pivots",
    "struct_singular_inputs", "exact_checked", "exact_singular_confirmed", "b_untouched_checked", "relaxed_snode_cases", "n_ge_4", "nr_storage", "symmetric_mode", NULL };
enum { C_INFO0, C_SING, C_OTHER, C_NONFIN, C_MULTI, C_EXP, C_DIAG, C_OFFD, C_SSING, C_EXACT, C_EXACTSING, C_BUNT, C_RELAX, C_NGE4, C_NR, C_SYM };
static const char *const RAT[] = { "residual_over_allowance", "lu_identity_over_allowance", "multiplier_times_u", NULL };

/* fam A: ALL(1..3) x vals x colperm x u x sym x stor x tuning x type x rhs-shape */
static const int TUNE_A[] = { 0, 2, 3 };
static const int VALS_A[] = { 0, 1, 2, 3, 4, 5, 6, 15, 7 };   /* V15: complex entries whose real and imaginary parts have opposite signs */
static const int RHSN[] = { 1, 2 }, RHSLD[] = { 0, 2 };
static void setA(const int *d, vcase *c)
{
    all123(d[0], &c->n, &c->pat); c->m = c->n; c->vals = VALS_A[d[1]]; c->colperm = d[2]; c->u = U_LIST[d[3]]; c->sym = d[4]; c->stor = d[5];
    set_tune(c, TUNE_A[d[6]]); c->type = d[7]; c->nrhs = RHSN[d[8]]; c->ldbx = RHSLD[d[8]]; c->rhs = d[8]; c->permid = -1;
}
/* fam B: ALL(4) x {V1,V3} x colperm x {1,.1} x tuning{3,5} x stor x type */
static const int VALS_B[] = { 1, 3 }; static const int TUNE_B[] = { 3, 5 };
static void setB(const int *d, vcase *c)
{
    c->n = c->m = 4; c->pat = (uint64_t)d[0]; c->vals = VALS_B[d[1]]; c->colperm = d[2]; c->u = U_LIST[d[3]]; set_tune(c, TUNE_B[d[4]]); c->stor = d[5]; c->type = d[6];
    c->nrhs = 1; c->rhs = (d[0] + d[2]) % 5; c->sym = (d[0] >> 3) & 1; c->permid = -1;
}
/* fam C: DEV_1(BASE(6)) x vals x colperm x u x sym x stor x 9 tunings x type */
static void setC(const int *d, vcase *c)
{
    c->n = c->m = 6; c->pat = dev1_pattern(6, base_pattern(6, d[0]), d[1]); c->vals = VALS_A[d[2]]; c->colperm = d[3]; c->u = U_LIST[d[4]]; c->sym = d[5]; c->stor = d[6];
    set_tune(c, d[7]); c->type = d[8]; c->nrhs = 1 + (d[1] % 3 == 0); c->ldbx = (d[1] % 2) * 3; c->rhs = d[1] % 5; c->permid = -1;
}
/* fam D (thorough): DEV_1(BASE(8)) */
static void setD(const int *d, vcase *c)
{
    c->n = c->m = 8; c->pat = dev1_pattern(8, base_pattern(8, d[0]), d[1]); c->vals = VALS_A[d[2]]; c->colperm = d[3]; c->u = U_LIST[d[4]]; c->sym = d[5]; c->stor = d[6];
    set_tune(c, d[7]); c->type = d[8]; c->nrhs = 1 + (d[1] % 3 == 0); c->ldbx = (d[1] % 2) * 3; c->rhs = d[1] % 5; c->permid = -1;
}
/* fam E (thorough): ALL(4) with all value schemes and more tunings, d/z */
static const int TYPE_DZ[] = { TD, TZ };
static void setE(const int *d, vcase *c)
{
    c->n = c->m = 4; c->pat = (uint64_t)d[0]; c->vals = d[1]; c->colperm = d[2]; c->u = U_LIST[d[3]]; set_tune(c, d[4]); c->stor = d[5]; c->type = TYPE_DZ[d[6]]; c->sym = d[7];
    c->nrhs = 1; c->rhs = (d[0] + d[2]) % 5; c->permid = -1;
}
/* fam F: MY_PERMC with all n! orders, n<=4, structurally interesting patterns */
static void setF(const int *d, vcase *c)
{
    c->n = c->m = 4; c->pat = (uint64_t)d[0] * 13 + 0x8421; c->pat &= 0xffff; c->pat |= 0x8421; /* keep the diagonal: structurally nonsingular */
    c->vals = VALS_B[d[1]]; c->colperm = 4; c->permid = d[2]; c->u = U_LIST[d[3]]; set_tune(c, TUNE_B[d[4]]); c->type = d[5]; c->nrhs = 1; c->rhs = 1;
}
/* fam G: orders 10..16 (generated patterns: structured base + one deviation, or pseudo-random), wide panels: reaches U-segments of length >= 4 inside a
 * panel (xcolumn_bmod / xpanel_bmod 2-D kernels), relaxed supernodes of the post-ordered etree (heap_relax_snode in symmetric mode) and supernodes wider than 3 */
static const int GN[] = { 10, 12, 16 };
#define G_NDEV 25
#define G_NRND 120
static const int TUNE_G[] = { 0, 8, 11, 12, 5 };
static void setG(const int *d, vcase *c)
{
    int per = 9 * G_NDEV + G_NRND, k = d[0] / per, q = d[0] % per;
    c->n = c->m = GN[k];
    if (q < 9 * G_NDEV) { int b = q / G_NDEV, dv = q % G_NDEV; c->gen = 1; long cell = dv ? ((long)(dv - 1) * 37 + b * 5) % ((long)c->n * c->n) + 1 : 0; c->pat = (uint64_t)b | ((uint64_t)cell << 8); }
    else { c->gen = 2; c->pat = (uint64_t)(q - 9 * G_NDEV) + 1000u * k; }
    c->vals = (int[]){ 1, 2, 3 }[d[1]]; c->colperm = d[2]; c->u = U_LIST[d[3]]; c->sym = d[4]; set_tune(c, TUNE_G[d[5]]); c->type = d[6]; c->stor = d[0] & 1;
    c->nrhs = 1 + (d[0] % 3 == 0); c->rhs = d[0] % 5; c->permid = -2;    /* MY_PERMC: reverse order */
}
#define N_G(nn) ((nn) * (9 * G_NDEV + G_NRND))
/* fam H: orders 12 and 16 with tuning 15 (row block 3 > column block 1, panel 3, maxsuper 4): the per-panel-column stride of the 2-D update's scratch vector
 * (maxsuper + rowblk) times the panel width exceeds n, so the scratch vector is used beyond its first n entries */
static void setH(const int *d, vcase *c)
{
    int per = 9 * G_NDEV + G_NRND; int e[7] = { d[0] + per, 0, (int[]){ 0, 3, 2 }[d[1]], 0, d[2], 0, d[3] }; setG(e, c); set_tune(c, 15);
}
#define FAM_H { "n in {12,16} x (BASE+24 deviations, 120 generated patterns) x V1 x {NATURAL,COLAMD,MMD_AT+A} x sym2 x tune(3,1,4,3,1,1,3) x type4", 4, { N_G(2), 3, 2, 4 }, setH }
static const int TM[] = { 2, 3, 3, 4, 4, 5, 5 }, TN[] = { 1, 1, 2, 2, 3, 2, 3 };
static long tall_off[8]; static long tall_total(void) { long s = 0; for (int k = 0; k < 7; k++) { tall_off[k] = s; s += 1L << (TM[k] * TN[k]); } tall_off[7] = s; return s; }
static void setT(const int *d, vcase *c)
{
    tall_total(); int k = 0; while (d[0] >= tall_off[k + 1]) k++;
    c->m = TM[k]; c->n = TN[k]; c->pat = (uint64_t)(d[0] - tall_off[k]); c->vals = (int[]){ 1, 3, 7 }[d[1]]; c->colperm = (int[]){ 0, 3, 1 }[d[2]]; c->u = U_LIST[d[3]]; set_tune(c, (int[]){ 2, 3, 5 }[d[4]]); c->type = d[5]; c->aux = 1; c->permid = -1;
}
#define N_TALL (2 + 8 + 64 + 256 + 4096 + 1024 + 32768)
static const family FAM_QUICK[] = {
    { "ALL(1..3) x {V0-6,V15} x colperm5 x u3 x sym2 x stor2 x tune3 x type4 x rhs2", 9, { N_ALL123, 8, 5, 3, 2, 2, 3, 4, 2 }, setA },
    { "ALL(4) x {V1,V3} x colperm{NAT,MMD_ATA,MMD_AT+A} x u{1,.1} x tune2 x stor2 x type4", 7, { N_ALL4, 2, 3, 2, 2, 2, 4 }, setB },
    { "DEV_1(BASE(6)) x {V0-6,V15} x colperm5 x u3 x sym2 x stor2 x tune9 x type4", 9, { 9, 37, 8, 5, 3, 2, 2, 9, 4 }, setC },
    { "MY_PERMC all 4! orders x 5041 patterns(diag kept) x {V1,V3} x u{1,.1} x tune2 x type4", 6, { 5041, 2, 24, 2, 2, 4 }, setF },
    { "tall m x n (2x1,3x1,3x2,4x2,4x3,5x2,5x3, all patterns) through xgstrf x {V1,V3} x {NATURAL,COLAMD} x u{1,.1} x tune3 x type4 [C02/C03 only]", 6, { N_TALL, 2, 2, 2, 3, 4 }, setT },
    { "n in {10,12} x (BASE+24 deviations, 120 generated patterns) x {V1,V2,V3} x colperm5 x u{1,.1} x sym2 x tune{default,8,11,12,5} x type4", 7, { N_G(2), 3, 5, 2, 2, 5, 4 }, setG },
    FAM_H,
};
static const family FAM_THOROUGH[] = {
    { "ALL(1..3) x {V0-6,V15} x colperm5 x u3 x sym2 x stor2 x tune3 x type4 x rhs2", 9, { N_ALL123, 8, 5, 3, 2, 2, 3, 4, 2 }, setA },
    { "ALL(4) x {V1,V3} x colperm5 x u{1,.1} x tune2 x stor2 x type4", 7, { N_ALL4, 2, 5, 2, 2, 2, 4 }, setB },
    { "DEV_1(BASE(6)) x {V0-6,V15} x colperm5 x u3 x sym2 x stor2 x tune9 x type4", 9, { 9, 37, 8, 5, 3, 2, 2, 9, 4 }, setC },
    { "MY_PERMC all 4! orders x 5041 patterns(diag kept) x {V1,V3} x u{1,.1} x tune2 x type4", 6, { 5041, 2, 24, 2, 2, 4 }, setF },
    { "DEV_1(BASE(8)) x {V0-6,V15,V7} x colperm5 x u4 x sym2 x stor2 x tune9 x type4", 9, { 9, 65, 9, 5, 4, 2, 2, 9, 4 }, setD },
    { "ALL(4) x V0-7 x colperm5 x u4 x tune9 x stor2 x {d,z} x sym2", 8, { N_ALL4, 8, 5, 4, 9, 2, 2, 2 }, setE },
    { "tall m x n (all patterns of 7 shapes) through xgstrf x {V1,V3,V7} x {NATURAL,COLAMD,MMD_ATA} x u3 x tune3 x type4 [C02/C03 only]", 6, { N_TALL, 3, 3, 3, 3, 4 }, setT },
    { "n in {10,12,16} x (BASE+24 deviations, 120 generated patterns) x {V1,V2,V3} x colperm5 x u4 x sym2 x tune{default,8,11,12,5} x type4", 7, { N_G(3), 3, 5, 4, 2, 5, 4 }, setG },
    FAM_H,
};
/* other build variants: reduced products (vendor BLAS = the configuration the 24 tests run; 64-bit indices; sanitizers) */
static void setAs(const int *d, vcase *c)   /* sanitizer builds: ALL(1..3) x {V1,V3} x colperm5 x u{1,.1} x sym2 x stor2 x tune{2,3,5} x type4 */
{ int e[9] = { d[0], d[1] ? 3 : 1, d[2], d[3], d[4], d[5], d[6], d[7], d[0] & 1 }; setA(e, c); set_tune(c, (int[]){ 2, 3, 5 }[d[6]]); }
static void setCs(const int *d, vcase *c)   /* sanitizer builds: BASE(6)+first 12 deviations x V1 x colperm{NAT,COLAMD} x tune{3,5,9} x type4 x stor2 */
{ int e[9] = { d[0], d[1], 1, d[2] ? 3 : 0, 0, 0, d[5], 0, d[4] }; setC(e, c); set_tune(c, (int[]){ 3, 5, 9 }[d[3]]); }
static const family FAM_ALT[] = {
    { "ALL(1..3) x {V0-6,V15} x colperm5 x u3 x sym2 x stor2 x tune3 x type4 x rhs2", 9, { N_ALL123, 8, 5, 3, 2, 2, 3, 4, 2 }, setA },
    { "DEV_1(BASE(6)) x {V0-6,V15} x colperm5 x u3 x sym2 x stor2 x tune9 x type4", 9, { 9, 37, 8, 5, 3, 2, 2, 9, 4 }, setC },
};
static const family FAM_ALTQ[] = {
    { "ALL(1..3) x {V0-6,V15} x colperm5 x u{1,.1} x sym2 x stor2 x tune3 x type4 x rhs2", 9, { N_ALL123, 8, 5, 2, 2, 2, 3, 4, 2 }, setA },
    { "DEV_1(BASE(6)) first 12 deviations x {V0-6,V15} x colperm5 x u{1,.1} x sym2 x stor2 x tune9 x type4", 9, { 9, 12, 8, 5, 2, 2, 2, 9, 4 }, setC },
};
static const family FAM_SAN[] = {
    { "ALL(1..3) x {V1,V3} x colperm5 x u{1,.1} x sym2 x stor2 x tune{2,3,5} x type4", 8, { N_ALL123, 2, 5, 2, 2, 2, 3, 4 }, setAs },
    { "BASE(6)+12 deviations x V1 x {NATURAL,COLAMD} x tune{3,5,9} x type4 x stor2", 6, { 9, 13, 2, 3, 4, 2 }, setCs },
    FAM_H,
};
#define NF_(F) ((int)(sizeof F / sizeof *F))
static const family *pick_std(int tier, int *nf)
{
    if (!strcmp(wk_variant, "ref")) { if (tier) { *nf = NF_(FAM_THOROUGH); return FAM_THOROUGH; } *nf = NF_(FAM_QUICK); return FAM_QUICK; }
    if (!strncmp(wk_variant, "asan", 4) || !strcmp(wk_variant, "tsan")) { *nf = NF_(FAM_SAN); return FAM_SAN; }
    if (tier) { *nf = NF_(FAM_ALT); return FAM_ALT; }
    *nf = NF_(FAM_ALTQ); return FAM_ALTQ;
}
static long sz_std(int tier) { int nf; const family *f = pick_std(tier, &nf); return fam_total(f, nf); }
static void dec_std(int tier, long idx, vcase *c) { int nf; const family *f = pick_std(tier, &nf); fam_decode(f, nf, idx, c); }
static void desc_std(int tier, char *b, size_t cap) { int nf; const family *f = pick_std(tier, &nf); fam_describe(f, nf, b, cap); }

static void count_common(const vcase *c, const fs_run *R)
{
    if (R->info == 0) WK_COUNT(C_INFO0); else if (R->info > 0 && R->info <= R->n) WK_COUNT(C_SING); else WK_COUNT(C_OTHER);
    if (c->n >= 4) WK_COUNT(C_NGE4);
    if (c->stor) WK_COUNT(C_NR);
    if (c->sym) WK_COUNT(C_SYM);
    if (R->have_LU && R->info == 0) {
        const SCformat *Ls = R->L.Store;
        if (Ls->nsuper < R->n - 1) WK_COUNT(C_MULTI);
        if (R->expansions > 0) WK_COUNT(C_EXP);
    }
}

static int prep_LU(fs_run *R, vres *r)
{
    if (expand_L(R->T, &R->L, &R->Ld) || expand_U(R->T, &R->L, &R->U, &R->Ud)) return wk_fail(r, "structure", "factor arrays hold an out-of-range row index; cannot expand L/U");
    R->expand_ok = 1;
    return 0;
}


/* ------------------------------------------------------------ tall matrices (m > n) through the factor routine */
static void run_tall(const vcase *c, vres *r, int which)
{
    int m = c->m, n = c->n; const vf_type *T = vf_T(c->type);
    if (pat_struct_rank(m, n, c->pat) < n) { r->status = 2; return; }
    dmat A, Ld, Ud; make_values(T, m, n, c->pat, c->vals, &A); vf_sparse S; sp_from_dense(&S, T, &A, 0);
    int pc[NMAX], pr[NMAX], et[NMAX]; superlu_options_t opt; vcase cc = *c; fill_options(&cc, &opt, pc, n);
    SuperLUStat_t st; StatInit(&st); SuperMatrix AC, L, U; GlobalLU_t G; memset(&G, 0, sizeof G); int_t info = -9;
    for (int i = 0; i < m; i++) pr[i] = -1;
    get_perm_c(opt.ColPerm, &S.A, pc); sp_preorder(&opt, &S.A, pc, et, &AC);
    T->gstrf(&opt, &AC, sp_ienv(2), sp_ienv(1), et, NULL, 0, pc, pr, &L, &U, &G, &st, &info);
    r->outcome = fnv(fnv(0, &info, sizeof info), pc, sizeof(int) * n);
    if (info == 0) {
        r->nontrivial = 1; WK_COUNT(C_INFO0);
        if (!is_perm(pr, m) || !is_perm(pc, n)) { wk_fail(r, "perm-not-bijection", "tall %dx%d: perm_r/perm_c not a bijection", m, n); goto done; }
        verdict v; memset(&v, 0, sizeof v);
        if (which == 3) { if (check_LU_structure(T, &L, &U, m, n, 0, &v)) wk_fail(r, "structure", "tall %dx%d: %s", m, n, v.msg); goto done; }
        if (expand_L(T, &L, &Ld) || expand_U(T, &L, &U, &Ud)) { wk_fail(r, "structure", "tall: cannot expand factors"); goto done; }
        if (check_LU_identity(T, &A, &Ld, &Ud, pr, pc, 16.0, &v)) { wk_fail(r, "lu-identity", "tall %dx%d: %s", m, n, v.msg); goto done; }
        WK_RATIO(1, v.ratio);
        double ratio = 0; long nd = 0;
        if (o_pivoting(T, &A, &Ld, &Ud, pr, pc, c->u, 1, r, &ratio, &nd)) goto done;
        WK_RATIO(2, ratio);
    } else if (info > 0 && info <= n) { r->status = 2; WK_COUNT(C_SING); }
    else wk_fail(r, "unexpected-info", "tall %dx%d: xgstrf info=%ld", m, n, (long)info);
done:
    if (info >= 0 && info <= n) { Destroy_SuperNode_Matrix(&L); Destroy_CompCol_Matrix(&U); }
    Destroy_CompCol_Permuted(&AC); StatFree(&st); sp_destroy(&S);
}

/* ---------------------------------------------------------------------- C01 */
static void run_C01(const vcase *c, vres *r)
{
    if (c->aux == 1) { r->status = 2; return; }     /* tall matrices have no driver: C02/C03 only */
    if (pat_struct_rank(c->n, c->n, c->pat) < c->n) { r->status = 2; return; }   /* never info=0: outside the premise (C04 judges these) */
    fs_run R; e1_gssv(c, &R); count_common(c, &R); r->outcome = R.outcome;
    if (R.info != 0) { r->status = 2; goto done; }
    r->nontrivial = (c->n >= 2 && R.S.nnz > c->n);
    if (!is_perm(R.perm_r, c->n) || !is_perm(R.perm_c, c->n)) { wk_fail(r, "perm-not-bijection", "perm_r/perm_c not a bijection on success"); goto done; }
    if (prep_LU(&R, r)) goto done;
    if (!R.a_unchanged) { wk_fail(r, "A-modified", "simple driver modified the caller's matrix"); goto done; }
    if (!R.pad_ok) { wk_fail(r, "padding-overwritten", "rows n..ldb-1 of B were modified"); goto done; }
    {
        dmat G; double ratio = 0;
        build_G(&R.Ld, &R.Ud, R.perm_r, R.perm_c, c->stor == 1, &G);
        if (o_residual(R.T, &R.A, 0, &G, &R.B0, &R.X, 16.0, r, &ratio)) goto done;
        WK_RATIO(0, ratio);
    }
done:
    if (r->status == 1) e1_dump(&R);
    e1_free(&R);
}

/* ---------------------------------------------------------------------- C02 */
static void run_C02(const vcase *c, vres *r)
{
    if (c->aux == 1) { run_tall(c, r, 2); return; }
    if (pat_struct_rank(c->n, c->n, c->pat) < c->n) { r->status = 2; return; }   /* never info=0: outside the premise (C04 judges these) */
    fs_run R; e1_gssv(c, &R); count_common(c, &R); r->outcome = R.outcome;
    if (R.info != 0) { r->status = 2; goto done; }
    r->nontrivial = (c->n >= 2 && R.S.nnz > c->n);
    if (!is_perm(R.perm_r, c->n)) { wk_fail(r, "perm-not-bijection", "perm_r is not a bijection on success"); goto done; }
    if (!is_perm(R.perm_c, c->n)) { wk_fail(r, "perm-not-bijection", "perm_c is not a bijection on success"); goto done; }
    if (prep_LU(&R, r)) goto done;
    {
        verdict v; memset(&v, 0, sizeof v); double ratio = 0; long nd = 0;
        if (check_LU_identity(R.T, &R.F, &R.Ld, &R.Ud, R.perm_r, R.perm_c, 16.0, &v)) { wk_fail(r, "lu-identity", "%s", v.msg); goto done; }
        WK_RATIO(1, v.ratio);
        if (o_pivoting(R.T, &R.F, &R.Ld, &R.Ud, R.perm_r, R.perm_c, c->u, 1, r, &ratio, &nd)) goto done;
        WK_RATIO(2, ratio); WK_ADD(C_DIAG, nd); WK_ADD(C_OFFD, c->n - nd);
        r->outcome = fnv(r->outcome, &nd, sizeof nd);
    }
done:
    if (r->status == 1) e1_dump(&R);
    e1_free(&R);
}

/* ---------------------------------------------------------------------- C03 */
static void run_C03(const vcase *c, vres *r)
{
    if (c->aux == 1) { run_tall(c, r, 3); return; }
    if (pat_struct_rank(c->n, c->n, c->pat) < c->n) { r->status = 2; return; }   /* never info=0: outside the premise (C04 judges these) */
    fs_run R; e1_gssv(c, &R); count_common(c, &R); r->outcome = R.outcome;
    if (R.info != 0) { r->status = 2; goto done; }
    r->nontrivial = (c->n >= 2 && R.S.nnz > c->n);
    {
        verdict v; memset(&v, 0, sizeof v);
        if (check_LU_structure(R.T, &R.L, &R.U, c->n, c->n, 0, &v)) { wk_fail(r, "structure", "%s", v.msg); goto done; }
        const SCformat *Ls = R.L.Store; long ns = (long)Ls->nsuper;
        r->outcome = fnv(r->outcome, &ns, sizeof ns);
        r->outcome = fnv(r->outcome, Ls->rowind, sizeof(int_t) * Ls->rowind_colptr[c->n]);
        r->outcome = fnv(r->outcome, ((NCformat *)R.U.Store)->rowind, sizeof(int_t) * ((NCformat *)R.U.Store)->colptr[c->n]);
    }
done:
    if (r->status == 1) e1_dump(&R);
    e1_free(&R);
}

/* ---------------------------------------------------------------------- C04
 * families: every pattern of ALL(1..4) (singular ones included) with exact-arithmetic value schemes */
static const int VALS_04[] = { 0, 1, 6 };
static const int TUNE_04[] = { 0, 2, 3, 5 };
static void set04A(const int *d, vcase *c)
{
    all123(d[0], &c->n, &c->pat); c->m = c->n; c->vals = VALS_04[d[1]]; c->colperm = d[2]; c->u = U_LIST[d[3]]; c->sym = d[4]; c->stor = d[5];
    set_tune(c, TUNE_04[d[6]]); c->type = d[7]; c->nrhs = 1 + (d[0] & 1); c->ldbx = (d[0] & 2); c->rhs = 1; c->permid = -1;
}
static void set04B(const int *d, vcase *c)
{
    c->n = c->m = 4; c->pat = (uint64_t)d[0]; c->vals = VALS_04[d[1]]; c->colperm = d[2]; c->u = U_LIST[d[3]]; set_tune(c, TUNE_04[d[4]]); c->type = d[5];
    c->sym = (d[0] >> 5) & 1; c->stor = (d[0] >> 9) & 1; c->nrhs = 1; c->rhs = 1; c->permid = -1;
}
/* DEV_1(BASE(6)) with row r2 := copy of row r1 (numerical rank deficiency), values V1 */
static void set04C(const int *d, vcase *c)
{
    c->n = c->m = 6; c->pat = dev1_pattern(6, base_pattern(6, d[0]), d[1]); c->vals = 100 + d[2]; /* 100+k: V1 with row (k%6) duplicated into row ((k/6+1+k)%6) */
    c->colperm = d[3]; c->u = U_LIST[d[4]]; set_tune(c, d[5]); c->type = d[6]; c->sym = d[1] & 1; c->stor = (d[1] >> 1) & 1; c->nrhs = 1; c->rhs = 1; c->permid = -1;
}
static const family FAM04_Q[] = {
    { "ALL(1..3) x {V0,V1,V6} x colperm5 x u{1,.1,1e-3,.5,0} x sym2 x stor2 x tune4 x type4", 8, { N_ALL123, 3, 5, 5, 2, 2, 4, 4 }, set04A },
    { "ALL(4) x {V0,V1,V6} x colperm{NAT,MMD_ATA,MMD_AT+A} x u{1,.1} x tune{0,2} x type4", 6, { N_ALL4, 3, 3, 2, 2, 4 }, set04B },
};
static const family FAM04_T[] = {
    { "ALL(1..3) x {V0,V1,V6} x colperm5 x u{1,.1,1e-3,.5,0} x sym2 x stor2 x tune4 x type4", 8, { N_ALL123, 3, 5, 5, 2, 2, 4, 4 }, set04A },
    { "ALL(4) x {V0,V1,V6} x colperm5 x u{1,.1,1e-3,.5,0} x tune{0,2,3,5} x type4", 6, { N_ALL4, 3, 5, 5, 4, 4 }, set04B },
};
static long sz_04(int tier) { return tier ? fam_total(FAM04_T, 2) : fam_total(FAM04_Q, 2); }
static void dec_04(int tier, long idx, vcase *c) { if (tier) fam_decode(FAM04_T, 2, idx, c); else fam_decode(FAM04_Q, 2, idx, c); }
static void desc_04(int tier, char *b, size_t cap) { if (tier) fam_describe(FAM04_T, 2, b, cap); else fam_describe(FAM04_Q, 2, b, cap); }

/* exact elimination without pivoting on W (n x n, already permuted); every intermediate must be a
 * multiple of 2^-10 below 2^12 in magnitude (then float and double arithmetic were exact too).
 * Returns: -1 not exact, else the first column k whose candidates (rows >= k) are all zero, or n if none.
 * diag_zero_at: first column j (< returned k) at which W_jj == 0 while some candidate below is non-zero, or -1 */
static int small_dyadic(xr v) { xr s = v * 1024.0L; return s == floorl(s) && fabsl(v) < 4096.0L; }
static int recip_exact(const vf_type *T, xc a, xc p, xc l)
{
    /* the library forms multipliers as a * (1/p) in working precision; exact only if that product reproduces a/p */
    if (T->cplx) {
        xr re = creall(p), im = cimagl(p), v = re != 0 ? re : im; int e;
        if (re != 0 && im != 0) return 0;
        return frexpl(fabsl(v), &e) == 0.5L;            /* +-2^k or +-2^k i: reciprocal exact under any algorithm */
    }
    if (T->id == TS) { float r = 1.0f / (float)creall(p); float q = (float)creall(a) * r; return (xr)q == creall(l); }
    double r = 1.0 / (double)creall(p); double q = (double)creall(a) * r; return (xr)q == creall(l);
}
static int exact_elim(const vf_type *T, int n, xc W[NMAX][NMAX], int upto, int *diag_zero_at)
{
    *diag_zero_at = -1;
    for (int i = 0; i < n; i++) for (int j = 0; j < n; j++) if (!small_dyadic(creall(W[i][j])) || !small_dyadic(cimagl(W[i][j]))) return -1;
    for (int k = 0; k < n; k++) {
        int any = 0; for (int i = k; i < n; i++) if (W[i][k] != 0) any = 1;
        if (!any) return k;
        if (k >= upto) return n;       /* caller only vouches for the pivot order of the first `upto` columns */
        if (W[k][k] == 0) { *diag_zero_at = k; return n; }
        for (int i = k + 1; i < n; i++) {
            if (W[i][k] == 0) continue;
            xc l = W[i][k] / W[k][k];
            if (!small_dyadic(creall(l)) || !small_dyadic(cimagl(l)) || l * W[k][k] != W[i][k] || !recip_exact(T, W[i][k], W[k][k], l)) return -1;
            for (int j = k + 1; j < n; j++) { W[i][j] -= l * W[k][j]; if (!small_dyadic(creall(W[i][j])) || !small_dyadic(cimagl(W[i][j]))) return -1; }
            W[i][k] = 0;
        }
    }
    return n;
}

static void run_C04(const vcase *c, vres *r)
{
    fs_run R; e1_gssv(c, &R); count_common(c, &R); r->outcome = R.outcome;
    int n = c->n; const vf_type *T = R.T;
    int srank = pat_struct_rank(n, n, c->pat);
    if (srank < n) WK_COUNT(C_SSING);
    r->nontrivial = (R.info > 0 && R.info <= n);
    if (R.info < 0 || R.info > n) { wk_fail(r, "unexpected-info", "info=%ld from the simple driver on a valid call (n=%d)", R.info, n); goto done; }
    int K = R.info == 0 ? n : (int)R.info - 1;     /* number of valid leading pivots */
    if (R.info == 0) { if (prep_LU(&R, r)) goto done; }
    else {
        /* singular return: only the leading K columns of the factors are meaningful (later columns may be degenerate) */
        const SCformat *Ls = R.L.Store; const NCformat *Us = R.U.Store;
        memset(&R.Ld, 0, sizeof R.Ld); memset(&R.Ud, 0, sizeof R.Ud); R.Ld.m = R.Ld.n = R.Ud.m = R.Ud.n = n;
        for (int j = 0; j < K; j++) {
            int s = Ls->col_to_sup[j]; if (s < 0 || s > Ls->nsuper) { wk_fail(r, "leading-structure", "col_to_sup[%d]=%d out of range", j, s); goto done; }
            int f = Ls->sup_to_col[s]; if (f < 0 || f > j) { wk_fail(r, "leading-structure", "sup_to_col[%d]=%d for column %d", s, f, j); goto done; }
            long r0 = (long)Ls->rowind_colptr[f], r1 = (long)Ls->rowind_colptr[f + 1], v0 = (long)Ls->nzval_colptr[j];
            for (long k = 0; k < r1 - r0; k++) {
                long i = (long)Ls->rowind[r0 + k];
                if (k <= j - f) { if (i != f + k) { wk_fail(r, "leading-structure", "column %d (info=%ld): leading row %ld of its supernode is %ld", j, R.info, k, i); goto done; } }
                if (i < 0 || i >= n) { if (k <= j - f) { wk_fail(r, "leading-structure", "row index %ld out of range in leading column %d", i, j); goto done; } continue; }
                if (i > j) { DM(&R.Ld, i, j) = T->ld(Ls->nzval, v0 + k); DZ(&R.Ld, i, j) = 1; } else DM(&R.Ud, i, j) += T->ld(Ls->nzval, v0 + k);
            }
            DM(&R.Ld, j, j) = 1;
            for (long k = (long)Us->colptr[j]; k < (long)Us->colptr[j + 1]; k++) {
                long i = (long)Us->rowind[k];
                if (i < 0 || i >= f) { wk_fail(r, "leading-structure", "U column %d (info=%ld) holds row %ld", j, R.info, i); goto done; }
                DM(&R.Ud, i, j) += T->ld(Us->nzval, k);
            }
        }
    }
    /* leading pivots: rows with perm_r < K are distinct and cover 0..K-1 */
    {
        int cnt[NMAX] = {0};
        for (int i = 0; i < n; i++) { if (R.perm_r[i] < 0 || R.perm_r[i] >= n) { wk_fail(r, "perm-range", "perm_r[%d]=%d out of range", i, R.perm_r[i]); goto done; } if (R.perm_r[i] < K) cnt[R.perm_r[i]]++; }
        for (int k = 0; k < K; k++) if (cnt[k] != 1) { wk_fail(r, "leading-pivots", "pivot position %d is assigned to %d rows (info=%ld)", k, cnt[k], R.info); goto done; }
        if (!is_perm(R.perm_c, n)) { wk_fail(r, "perm-not-bijection", "perm_c is not a bijection"); goto done; }
    }
    if (R.info == 0) {
        for (int j = 0; j < n; j++) if (DM(&R.Ud, j, j) == 0) { wk_fail(r, "zero-diagonal", "info=0 but U(%d,%d) is exactly zero", j, j); goto done; }
    } else {
        /* (c) leading block identity and non-zero leading pivots; candidates of column K exactly zero */
        for (int j = 0; j < K; j++) if (DM(&R.Ud, j, j) == 0) { wk_fail(r, "early-zero-pivot", "info=%ld but U(%d,%d) is already zero", R.info, j, j); goto done; }
        int iperm_c[NMAX], iperm_r[NMAX]; for (int j = 0; j < n; j++) iperm_c[R.perm_c[j]] = j;
        for (int i = 0; i < n; i++) iperm_r[i] = -1;
        for (int i = 0; i < n; i++) if (R.perm_r[i] < K) iperm_r[R.perm_r[i]] = i;
        for (int pi = 0; pi < K; pi++) for (int pj = 0; pj < K; pj++) {
            xc a = DM(&R.F, iperm_r[pi], iperm_c[pj]), lu = 0; xr alu = 0;
            for (int k = 0; k <= pi && k <= pj; k++) { lu += DM(&R.Ld, pi, k) * DM(&R.Ud, k, pj); alu += cabsl(DM(&R.Ld, pi, k)) * cabsl(DM(&R.Ud, k, pj)); }
            if (cabsl(a - lu) > 16.0L * n * T->eps * alu) { wk_fail(r, "leading-block-identity", "leading %dx%d block: (PrAPc - LU)[%d,%d] = %Lg > bound %Lg", K, K, pi, pj, cabsl(a - lu), 16.0L * n * T->eps * alu); goto done; }
        }
        /* stored candidates of column K: positions >= K - f in its supernode column */
        const SCformat *Ls = R.L.Store; int s = Ls->col_to_sup[K];
        if (s < 0 || s > Ls->nsuper || Ls->sup_to_col[s] < 0 || Ls->sup_to_col[s] > K) { wk_fail(r, "leading-structure", "col_to_sup/sup_to_col inconsistent at the singular column %d", K); goto done; }
        int f = Ls->sup_to_col[s];
        long r0 = (long)Ls->rowind_colptr[f], r1 = (long)Ls->rowind_colptr[f + 1], v0 = (long)Ls->nzval_colptr[K];
        for (long k = K - f; k < r1 - r0; k++) if (T->ld(Ls->nzval, v0 + k) != 0) { wk_fail(r, "nonzero-candidate", "info=%ld but stored candidate %ld of column %d is non-zero", R.info, k, K); goto done; }
        /* no solve attempted: B bit-identical */
        WK_COUNT(C_BUNT);
        if (!R.b_unchanged) { wk_fail(r, "rhs-modified-on-singular", "info=%ld (singular) but the right-hand side array was modified", R.info); goto done; }
    }
    /* (d) exact elimination along the library's own pivot sequence */
    {
        xc W[NMAX][NMAX]; int iperm_c[NMAX], rowof[NMAX], used[NMAX] = {0}, nxt = K;
        for (int j = 0; j < n; j++) iperm_c[R.perm_c[j]] = j;
        for (int i = 0; i < n; i++) rowof[i] = -1;
        for (int i = 0; i < n; i++) if (R.perm_r[i] < K) { rowof[R.perm_r[i]] = i; used[i] = 1; }
        for (int i = 0; i < n; i++) if (!used[i]) rowof[nxt++] = i;
        for (int pi = 0; pi < n; pi++) for (int pj = 0; pj < n; pj++) W[pi][pj] = DM(&R.F, rowof[pi], iperm_c[pj]);
        int dz, k0 = exact_elim(T, n, W, K, &dz);
        if (k0 >= 0) {
            WK_COUNT(C_EXACT);
            if (dz >= 0) { wk_fail(r, "exact-zero-pivot-used", "exact arithmetic: the pivot the library used in column %d is exactly zero while another candidate is not (info=%ld)", dz, R.info); goto done; }
            if (R.info == 0 && k0 < n) { wk_fail(r, "exact-singular-accepted", "exact arithmetic: column %d has no non-zero pivot candidate but info=0", k0); goto done; }
            if (R.info > 0 && k0 != K) { wk_fail(r, "exact-info-mismatch", "exact arithmetic: first column without a non-zero candidate is %d, library reported info=%ld", k0, R.info); goto done; }
            if (R.info > 0) WK_COUNT(C_EXACTSING);
        }
    }
    if (srank < n && R.info == 0) {
        /* arithmetic along the pivot sequence was inexact (otherwise the exact test above fired).  Plausibility: redo the
           elimination along the library's pivot sequence in extended precision; the first pivot that vanishes there must be
           rounding noise in the library's U */
        int tiny = 0; xc W[NMAX][NMAX]; int ipc[NMAX], ipr[NMAX]; xr amax = 0, umax = 0;
        for (int j = 0; j < n; j++) { ipc[R.perm_c[j]] = j; ipr[R.perm_r[j]] = j; }
        for (int i = 0; i < n; i++) for (int j = 0; j < n; j++) { W[i][j] = DM(&R.F, ipr[i], ipc[j]); if (cabsl(W[i][j]) > amax) amax = cabsl(W[i][j]); if (cabsl(DM(&R.Ud, i, j)) > umax) umax = cabsl(DM(&R.Ud, i, j)); }
        for (int k = 0; k < n; k++) {
            if (cabsl(W[k][k]) <= 1e-12L * amax) { tiny = cabsl(DM(&R.Ud, k, k)) <= 1e4L * T->eps * (amax > umax ? amax : umax); break; }
            for (int i = k + 1; i < n; i++) { xc l = W[i][k] / W[k][k]; for (int j = k; j < n; j++) W[i][j] -= l * W[k][j]; }
        }
        wk_fail(r, tiny ? "struct-singular-accepted-rounding" : "struct-singular-accepted", "structural rank %d < n=%d but info=0 (%s)", srank, n, tiny ? "a pivot is rounding noise of an exact zero" : "no pivot is small");
        goto done;
    }
done:
    if (r->status == 1) e1_dump(&R);
    e1_free(&R);
}

static const char RULE_STD[] = "full Cartesian product of the listed dimensions (pattern x value scheme x ordering x threshold x symmetric mode x storage x tuning x type x rhs shape); every index is a distinct case; non-trivial = info==0, n>=2 and more non-zeros than the diagonal; cases with info!=0 are skipped (C04 judges them)";
static const char RULE_04[] = "full Cartesian product over every pattern of ALL(1..4) (singular ones included) x exact-arithmetic value schemes x orderings x thresholds x tunings x types; non-trivial = the driver returned 1<=info<=n";

const vf_check vf_checks[] = {
    { "C01", sz_std, dec_std, run_C01, CNT, RAT, RULE_STD, desc_std },
    { "C02", sz_std, dec_std, run_C02, CNT, RAT, RULE_STD, desc_std },
    { "C03", sz_std, dec_std, run_C03, CNT, RAT, RULE_STD, desc_std },
    { "C04", sz_04, dec_04, run_C04, CNT, RAT, RULE_04, desc_04 },
};
const int vf_nchecks = 4;
int main(int argc, char **argv) { return wk_main(argc, argv); }
