/* Engine E1: C15 (incomplete LU never breaks down; exact when dropping is off). */
#include "xs.h"

static const char *const CNT[] = { "info_zero", "pivots_replaced", "rcond_warning", "nodrop_exact_checked", "mc64_rowperm", "no_rowperm", "equed_N", "equed_R", "equed_C", "equed_B", "trans_N", "trans_T", "trans_C", "row_storage",
    "u_repeated_rows", "multi_col_supernodes", "secondary_drop_rules", "milu_variants", "nr_conj_quirk", "heap_content_differential", "etree_checked", NULL };
enum { K_I0, K_REPL, K_WARN, K_EXACT, K_MC64, K_NOR, K_EN, K_ER, K_EC, K_EB, K_TN, K_TT, K_TC, K_NR, K_UREP, K_MULTI, K_SEC, K_MILU, K_QUIRK, K_HEAPDIFF, K_ETREE };
static const char *const RAT[] = { "solve_residual_over_allowance", "nodrop_identity_over_allowance", NULL };

static const int CP_I[] = { 0, 3, 2 };
static const int VALS_I[] = { 1, 0, 4, 5, 3 };
static const int TUNE_I[] = { 0, 3, 9 };

/* k encodes: drop(7) tol(3) fill(3) norm(3) milu(4) ; aux: rowperm ; aux2: struct for pattern families */
static void set_opts_digits(vcase *c, int drop, int tol, int fill, int norm, int milu, int rowperm) { c->k = drop + 7 * (tol + 3 * (fill + 3 * (norm + 3 * milu))); c->aux = rowperm; }
static void sI_a(const int *d, vcase *c)   /* quick: ALL(1..3) x vals2 x drop4 x tol2 x fill2 x norm2 x milu2 x rowperm2 x trans{N,T} x colperm2 x tune2 x type4 */
{ all123(d[0], &c->n, &c->pat); c->m = c->n; c->vals = VALS_I[d[1]]; set_opts_digits(c, d[2], d[3], d[4], d[5], d[6], d[7]); c->trans = d[8]; c->colperm = CP_I[d[9]]; set_tune(c, TUNE_I[d[10]]); c->type = d[11]; c->equil = 1; c->nrhs = 1 + (d[0] % 3 == 0); c->ldbx = d[0] % 2; c->rhs = 1; c->u = 0.1; c->permid = -1; c->stor = (d[0] >> 2) & 1; }
static void sI_b(const int *d, vcase *c)   /* DEV_1(BASE(6)) subset */
{ c->n = c->m = 6; c->pat = dev1_pattern(6, base_pattern(6, d[0]), d[1]); c->vals = VALS_I[d[2]]; set_opts_digits(c, d[3], d[4], d[5], d[6], d[7], d[8]); c->trans = d[9]; c->colperm = CP_I[d[10]]; set_tune(c, TUNE_I[d[11]]); c->type = d[12]; c->equil = 1; c->nrhs = 1 + (d[1] % 3 == 0); c->ldbx = d[1] % 2; c->rhs = 1; c->u = 0.1; c->permid = -1; c->stor = d[1] & 1; }
/* modified-ILU cancellation: n=4 all patterns with the diagonal kept (4096), n=5 upper triangular (1024), values 13/14, DROP_BASIC tol .5, every norm, every MILU variant */
static void sI_m(const int *d, vcase *c)
{
    if (d[0] < 4096) { c->n = c->m = 4; uint64_t p = 0x8421; int b = 0; for (int q = 0; q < 16; q++) if (q % 5) { if ((d[0] >> b) & 1) p |= (uint64_t)1 << q; b++; } c->pat = p; }
    else { c->n = c->m = 5; uint64_t p = 0; int b = 0; for (int i = 0; i < 5; i++) for (int j = 0; j < 5; j++) { if (i == j) p |= (uint64_t)1 << (i * 5 + j); else if (i < j) { if (((d[0] - 4096) >> b) & 1) p |= (uint64_t)1 << (i * 5 + j); b++; } } c->pat = p; }
    c->vals = 13 + d[1]; set_opts_digits(c, 1, 1, 0, d[2], d[3], 0); c->trans = 0; c->colperm = CP_I[d[4]]; set_tune(c, (int[]){ 2, 3, 0 }[d[5]]); c->type = d[6]; c->equil = 0; c->nrhs = 1; c->rhs = 1; c->u = 0.1; c->permid = -1; c->stor = 0;
}
/* numerically induced rank deficiency: entries that are tiny relative to their column (V4/V5/V7 scale rows and columns by 10^+-6) are dropped, a column of L can
   come out empty and the factorization has to insert a fill-in pivot; all 4 x 4 patterns, and every deviation of the 6 x 6 bases */
static void sI_z4(const int *d, vcase *c)
{ c->n = c->m = 4; c->pat = (uint64_t)d[0]; c->vals = (int[]){ 4, 5, 7 }[d[1]]; set_opts_digits(c, 1, d[2], 0, 0, 0, 0); c->trans = 0; c->colperm = CP_I[d[3]]; set_tune(c, (int[]){ 3, 0, 2 }[d[4]]); c->type = d[5]; c->equil = 0; c->nrhs = 1; c->rhs = 1; c->u = 0.1; c->permid = -1; c->stor = 0; }
static void sI_z6(const int *d, vcase *c)
{ c->n = c->m = 6; c->pat = dev1_pattern(6, base_pattern(6, d[0]), d[1]); c->vals = (int[]){ 4, 5, 7 }[d[2]]; set_opts_digits(c, 1, d[3], 0, 0, d[6], 0); c->trans = 0; c->colperm = CP_I[d[4]]; set_tune(c, (int[]){ 3, 0, 2 }[d[5]]); c->type = d[7]; c->equil = 0; c->nrhs = 1; c->rhs = 1; c->u = 0.1; c->permid = -1; c->stor = 0; }
/* SymmetricMode: the etree is heap-ordered but not postordered (ilu_heap_relax_snode); patterns whose natural order is not a postorder included */
static void sI_s(const int *d, vcase *c)
{ static const int B[] = { 0, 1, 2, 3, 4, 5, 6, 7, 8, 11, 12 }; c->n = c->m = 6; c->pat = dev1_pattern(6, base_pattern(6, B[d[0]]), d[1]); c->vals = (int[]){ 1, 4 }[d[2]]; set_opts_digits(c, d[3], 0, 0, 0, 0, 0); c->trans = 0; c->colperm = CP_I[d[4]];
  set_tune(c, (int[]){ 0, 10, 4, 3 }[d[5]]); c->type = d[6]; c->equil = 1; c->nrhs = 1; c->rhs = 1; c->u = 0.1; c->permid = -1; c->stor = 0; c->sym = 1; c->aux2 = 1; }
#define FAM_SYM(nd) { "SymmetricMode: 11 bases of order 6 (incl. interleaved chains) x deviations x vals{V1,V4} x {NODROP,BASIC} x {NATURAL,COLAMD,MMD_AT+A} x tune{default,(2,4,4..),(2,2,3..),(2,1,2..)} x type4", 7, { 11, nd, 2, 2, 3, 4, 4 }, sI_s }
static void sI_s16(const int *d, vcase *c)   /* orders 12 and 16, generated patterns: etrees with several branches, subtrees that are not contiguous in the original numbering */
{ c->n = c->m = d[1] ? 16 : 12; if (d[0] < 8) { c->gen = 1; c->pat = (uint64_t)(int[]){ 9, 10, 4, 7, 1, 2, 11, 12 }[d[0]]; } else { c->gen = 2; c->pat = (uint64_t)(800 + d[0]); }
  c->vals = 1; set_opts_digits(c, d[2], 0, 0, 0, 0, 0); c->trans = 0; c->colperm = CP_I[d[3]]; set_tune(c, (int[]){ 0, 10, 14 }[d[4]]); c->type = d[5]; c->equil = 1; c->nrhs = 1; c->rhs = 1; c->u = 0.1; c->permid = -1; c->stor = 0; c->sym = d[6]; c->aux2 = 1; }
#define FAM_S16(np) { "orders 12 and 16: 8 structured + generated patterns x {NODROP,BASIC} x {NATURAL,COLAMD,MMD_AT+A} x tune{default,(2,4,4..),(3,8,2..)} x type4 x SymmetricMode2", 7, { np, 2, 2, 3, 3, 4, 2 }, sI_s16 }
#define FAM_Z4 { "tiny entries dropped, Equil off: ALL(4) x {V4,V5,V7} x BASIC tol{1e-4,.5} x {NATURAL,COLAMD} x tune{(2,1,2..),default,1-col} x type4", 6, { N_ALL4, 3, 2, 2, 3, 4 }, sI_z4 }
#define FAM_Z6 { "tiny entries dropped, Equil off: DEV_1(BASE(6)) x {V4,V5,V7} x BASIC tol{1e-4,.5} x {NATURAL,COLAMD} x tune3 x milu{SILU,SMILU_2} x type4", 8, { 9, 37, 3, 2, 2, 3, 2, 4 }, sI_z6 }
/* the tiny-entry families with ILU_FillFactor = 1: the growable arrays start at exactly nnz(A) entries, so growth requests fall into the fill-in block of an
   emptied column (the four arrays fill at different moments as soon as a supernode has several columns) */
static void sI_z4f(const int *d, vcase *c) { sI_z4(d, c); set_opts_digits(c, 1, d[2], 1, 0, 0, 0); }
static void sI_z6f(const int *d, vcase *c) { sI_z6(d, c); set_opts_digits(c, 1, d[3], 1, 0, d[6], 0); }
#define FAM_Z4F { "tiny entries dropped, Equil off, fill factor 1: ALL(4) x {V4,V5,V7} x BASIC tol{1e-4,.5} x {NATURAL,COLAMD} x tune{(2,1,2..),default,1-col} x type4", 6, { N_ALL4, 3, 2, 2, 3, 4 }, sI_z4f }
#define FAM_Z6F { "tiny entries dropped, Equil off, fill factor 1: DEV_1(BASE(6)) x {V4,V5,V7} x BASIC tol{1e-4,.5} x {NATURAL,COLAMD} x tune3 x milu{SILU,SMILU_2} x type4", 8, { 9, 37, 3, 2, 2, 3, 2, 4 }, sI_z6f }
static const family FIQ[] = {
    { "ALL(1..3) x vals{V1,V0,V4,V5} x drop{NODROP,BASIC,BASIC|AREA,BASIC|PROWS} x tol{1e-4,.5} x fill{10,1} x norm{inf,1} x milu{SILU,SMILU_2} x rowperm{none,MC64} x trans{N,T} x colperm{NAT,COLAMD} x tune{default,(2,1,2..)} x type4", 12, { N_ALL123, 4, 4, 2, 2, 2, 2, 2, 2, 2, 2, 4 }, sI_a },
    { "DEV_1(BASE(6)) first 5 deviations x vals2 x drop4 x tol2 x fill2 x norm2 x milu2 x rowperm2 x trans{N,T} x colperm2 x tune2 x type4", 13, { 9, 5, 2, 4, 2, 2, 2, 2, 2, 2, 2, 2, 4 }, sI_b },
    { "modified-ILU cancellation (dropped mass = minus every pivot candidate): {n=4 all patterns with full diagonal, n=5 upper triangular} x vals{13,14} x BASIC tol .5 x norm3 x milu4 x {NATURAL,COLAMD} x tune{1-col,(2,1,2..),default} x type4", 7, { 5120, 2, 3, 4, 2, 3, 4 }, sI_m },
    FAM_Z4, FAM_Z6, FAM_SYM(13), FAM_S16(8 + 60), FAM_Z4F, FAM_Z6F,
};
static const family FIT[] = {
    { "ALL(1..3) x vals5 x drop7 x tol3 x fill3 x norm3 x milu4 x rowperm2 x trans3 x colperm3 x tune3 x type4", 12, { N_ALL123, 5, 7, 3, 3, 3, 4, 2, 3, 3, 3, 4 }, sI_a },
    { "DEV_1(BASE(6)) first 12 deviations x vals2 x drop7 x tol3 x fill3 x norm3 x milu4 x rowperm2 x trans3 x colperm3 x tune3 x {d,z}", 13, { 9, 12, 2, 7, 3, 3, 3, 4, 2, 3, 3, 3, 2 }, sI_b },
    { "modified-ILU cancellation (dropped mass = minus every pivot candidate): {n=4 all patterns with full diagonal, n=5 upper triangular} x vals{13,14} x BASIC tol .5 x norm3 x milu4 x {NATURAL,COLAMD} x tune{1-col,(2,1,2..),default} x type4", 7, { 5120, 2, 3, 4, 2, 3, 4 }, sI_m },
    FAM_Z4, FAM_Z6, FAM_SYM(37), FAM_S16(8 + 600), FAM_Z4F, FAM_Z6F,
};
/* sanitizer build: the small-order families with the first values of every option list (out-of-bounds reads are only visible there: the ledger's own
   blocks are addressable beyond their end in the plain builds) */
static const family FIS[] = {
    { "ALL(1..3) x V1 x drop{NODROP,BASIC} x tol 1e-4 x fill{10,1} x norm inf x milu{SILU,SMILU_2} x rowperm{none,MC64} x trans N x colperm{NAT,COLAMD} x tune{default,(2,1,2..)} x type4", 12, { N_ALL123, 1, 2, 1, 2, 1, 2, 2, 1, 2, 2, 4 }, sI_a },
    { "DEV_1(BASE(6)) first 5 deviations x V1 x drop{NODROP,BASIC} x tol 1e-4 x fill{10,1} x norm inf x milu2 x rowperm2 x trans N x colperm2 x tune2 x type4", 13, { 9, 5, 1, 2, 1, 2, 1, 2, 2, 1, 2, 2, 4 }, sI_b },
    FAM_SYM(13), FAM_S16(8),
};
static void sI_bt(const int *d, vcase *c) { int e[13]; memcpy(e, d, sizeof e); e[12] = d[12] ? TZ : TD; sI_b(e, c); }
#define NF(F) ((int)(sizeof F / sizeof *F))
#define SAN (!strncmp(wk_variant, "asan", 4))
#define NFV(F) (NF(F) - (strcmp(wk_variant, "ref") ? 2 : 0))      /* the fill-factor-1 families (last two) run on the reference build only */
static long sz_I(int tier) { if (SAN) return fam_total(FIS, NF(FIS)); return tier ? fam_total(FIT, NFV(FIT)) : fam_total(FIQ, NFV(FIQ)); }
static void dec_I(int tier, long idx, vcase *c) { if (SAN) { fam_decode(FIS, NF(FIS), idx, c); return; } if (tier) { fam_decode(FIT, NFV(FIT), idx, c); if (c->fam == 1) { /* {d,z} */ c->type = (c->type == 0) ? TD : TZ; } } else fam_decode(FIQ, NFV(FIQ), idx, c); }
static void desc_I(int tier, char *b, size_t cap) { if (SAN) fam_describe(FIS, NF(FIS), b, cap); else if (tier) fam_describe(FIT, NFV(FIT), b, cap); else fam_describe(FIQ, NFV(FIQ), b, cap); }

/* everything a caller can observe of one xgsisx call, as a hash; fresh library blocks are pre-filled with `fill` */
static uint64_t ilu_once(const vcase *c, int fill)
{
    int n = c->n; const vf_type *T = vf_T(c->type); int save = vf_fill_byte; vf_fill_byte = fill;
    xs s; xs_init(&s, T, n, c->pat, c->vals, c->stor); s.ilu = 1;
    dmat B; make_rhs(T, &s.A_orig, c->trans, c->rhs, c->nrhs > 0 ? c->nrhs : 1, &B); xs_set_rhs(&s, &B, c->ldbx, c->nrhs > 1 ? 2 : 0);
    superlu_options_t opt; xs_ilu_options(c, c->aux, &opt); memset(&s.Glu, 0, sizeof s.Glu);
    xs_call(&s, &opt);
    uint64_t h = fnv(0, &s.info, sizeof s.info); h = fnv(h, s.perm_c, sizeof(int) * n); h = fnv(h, s.perm_r, sizeof(int) * n); h = fnv(h, s.equed, 1);
    if (s.have_LU) { uint64_t l = hash_LU(T, &s.L, &s.U); h = fnv(h, &l, sizeof l); }
    for (int j = 0; j < s.nrhs; j++) h = fnv(h, (char *)s.X.val + T->esz * (size_t)j * s.X.ld, T->esz * n);
    xs_destroy(&s); vf_fill_byte = save; return h;
}
static void run_C15(const vcase *c, vres *r)
{
    int n = c->n; const vf_type *T = vf_T(c->type);
    if (pat_struct_rank(n, n, c->pat) < n) { r->status = 2; return; }
    (void)sI_bt;
    xs s; xs_init(&s, T, n, c->pat, c->vals, c->stor); s.ilu = 1;
    dmat A_in = s.A_orig, B, B_in, B_after; make_rhs(T, &A_in, c->trans, c->rhs, c->nrhs > 0 ? c->nrhs : 1, &B); xs_set_rhs(&s, &B, c->ldbx, c->nrhs > 1 ? 2 : 0); dn_to_dense(&s.B, &B_in);    /* several right-hand sides with ldb != ldx */
    superlu_options_t opt; xs_ilu_options(c, c->aux, &opt);
    int kk = c->k, drop = kk % 7, milu = (kk / 189) % 4;
    int_t *ind0 = intMalloc(s.S.nnz ? s.S.nnz : 1), *ptr0 = intMalloc(n + 1); memcpy(ind0, s.S.ind, sizeof(int_t) * s.S.nnz); memcpy(ptr0, s.S.ptr, sizeof(int_t) * (n + 1));
    memset(&s.Glu, 0, sizeof s.Glu);
    xs_call(&s, &opt);
    dn_to_dense(&s.B, &B_after);
    long info = s.info;
    WK_COUNT(c->aux ? K_MC64 : K_NOR); WK_COUNT(K_TN + c->trans); if (c->stor) WK_COUNT(K_NR); if (xs_ilu_drops[drop] & DROP_SECONDARY) WK_COUNT(K_SEC); if (milu) WK_COUNT(K_MILU);
    r->nontrivial = (n >= 2 && s.S.nnz > n);
    r->outcome = fnv(fnv(0, &info, sizeof info), s.perm_c, sizeof(int) * n);
    if (memcmp(ind0, s.S.ind, sizeof(int_t) * s.S.nnz) || memcmp(ptr0, s.S.ptr, sizeof(int_t) * (n + 1))) { wk_fail(r, "row-indices-not-restored", "xgsisx returned A with modified row indices / column pointers"); goto done; }
    if (info == 0) WK_COUNT(K_I0); else if (info > 0 && info <= n) WK_COUNT(K_REPL); else if (info == n + 1) WK_COUNT(K_WARN);
    {
        char e = s.equed[0]; ilu_stats st;
        int bad = o_ilu(&s, c->trans, c->equil, &A_in, &B_in, &B_after, ilu_nodrop(c->k), opt.ConditionNumber == YES, r, &st);
        if (st.multi) WK_COUNT(K_MULTI); if (st.urep) WK_COUNT(K_UREP); if (st.quirk) WK_COUNT(K_QUIRK);
        if (bad) goto done;
        /* the elimination tree handed back with the column order is the column elimination tree of the matrix in that order (a row permutation by MC64
           and the scalings do not change it; sp_preorder builds the column tree in symmetric mode as well) */
        if (info >= 0 && info <= n + 1 && is_perm(s.perm_c, n)) {
            dmat Fp = A_in; if (s.stor) { dmat Ft; transpose_dm(&Fp, &Ft); Fp = Ft; }
            int want[NMAX]; ref_etree(&Fp, s.perm_c, n, 0, want);
            for (int j = 0; j < n; j++) if (s.etree[j] != want[j]) { wk_fail(r, "etree-inconsistent", "xgsisx returned etree[%d]=%d but the column elimination tree of A in the returned order perm_c has parent %d (SymmetricMode=%d)", j, s.etree[j], want[j], c->sym); goto done; }
            WK_COUNT(K_ETREE);
        }
        WK_COUNT(e == 'N' ? K_EN : e == 'R' ? K_ER : e == 'C' ? K_EC : K_EB);
        WK_RATIO(0, st.ratio_solve); if (st.exact) { WK_RATIO(1, st.ratio_id); WK_COUNT(K_EXACT); }
    }
    if (c->aux2 == 1 && !r->status) {
        /* the result does not depend on what fresh library blocks happened to contain: same call on heaps pre-filled with three other byte patterns */
        uint64_t h0 = ilu_once(c, 0xA5), h1 = ilu_once(c, 0x11), h2 = ilu_once(c, 0x00), h3 = ilu_once(c, 0x7F); WK_COUNT(K_HEAPDIFF);
        if (h0 != h1 || h0 != h2 || h0 != h3) { wk_fail(r, "depends-on-heap-contents", "the same xgsisx call gives different info / permutations / factors / X when fresh blocks are pre-filled with 0xA5, 0x11, 0x00, 0x7F (hashes %016llx %016llx %016llx %016llx)", (unsigned long long)h0, (unsigned long long)h1, (unsigned long long)h2, (unsigned long long)h3); goto done; }
    }
done:
    SUPERLU_FREE(ind0); SUPERLU_FREE(ptr0);
    xs_destroy(&s);
}
static const char RULE15[] = "full Cartesian product of the listed option lists (drop rule x tolerance x fill factor x norm x MILU x row permutation x Trans x ordering x tuning x type) on every structurally nonsingular pattern of the families, through xgsisx; non-trivial = n>=2 with off-diagonal entries";
const vf_check vf_checks[] = { { "C15", sz_I, dec_I, run_C15, CNT, RAT, RULE15, desc_I } };
const int vf_nchecks = 1;
int main(int argc, char **argv) { return wk_main(argc, argv); }
