/* Engine E1: C15 (incomplete LU never breaks down; exact when dropping is off). */
#include "xs.h"

static const char *const CNT[] = { "info_zero", "pivots_replaced", "rcond_warning", "nodrop_exact_checked", "mc64_rowperm", "no_rowperm", "equed_N", "equed_R", "equed_C", "equed_B", "trans_N", "trans_T", "trans_C", "row_storage",
    "u_repeated_rows", "multi_col_supernodes", "secondary_drop_rules", "milu_variants", "nr_conj_quirk", NULL };
enum { K_I0, K_REPL, K_WARN, K_EXACT, K_MC64, K_NOR, K_EN, K_ER, K_EC, K_EB, K_TN, K_TT, K_TC, K_NR, K_UREP, K_MULTI, K_SEC, K_MILU, K_QUIRK };
static const char *const RAT[] = { "solve_residual_over_allowance", "nodrop_identity_over_allowance", NULL };

static const int DROPS[] = { NODROP, DROP_BASIC, DROP_BASIC | DROP_AREA, DROP_BASIC | DROP_PROWS, DROP_BASIC | DROP_COLUMN, DROP_BASIC | DROP_AREA | DROP_DYNAMIC, DROP_BASIC | DROP_PROWS | DROP_INTERP };
static const double TOLS[] = { 1e-4, 0.5, 0.0 };
static const double FILLS[] = { 10.0, 1.0, 2.0 };
static const norm_t NORMS[] = { INF_NORM, ONE_NORM, TWO_NORM };
static const milu_t MILUS[] = { SILU, SMILU_2, SMILU_1, SMILU_3 };
static const int CP_I[] = { 0, 3, 2 };
static const int VALS_I[] = { 1, 0, 4, 5, 3 };
static const int TUNE_I[] = { 0, 3, 9 };

/* k encodes: drop(7) tol(3) fill(3) norm(3) milu(4) ; aux: rowperm ; aux2: struct for pattern families */
static void set_opts_digits(vcase *c, int drop, int tol, int fill, int norm, int milu, int rowperm) { c->k = drop + 7 * (tol + 3 * (fill + 3 * (norm + 3 * milu))); c->aux = rowperm; }
static void sI_a(const int *d, vcase *c)   /* quick: ALL(1..3) x vals2 x drop4 x tol2 x fill2 x norm2 x milu2 x rowperm2 x trans{N,T} x colperm2 x tune2 x type4 */
{ all123(d[0], &c->n, &c->pat); c->m = c->n; c->vals = VALS_I[d[1]]; set_opts_digits(c, d[2], d[3], d[4], d[5], d[6], d[7]); c->trans = d[8]; c->colperm = CP_I[d[9]]; set_tune(c, TUNE_I[d[10]]); c->type = d[11]; c->equil = 1; c->nrhs = 1; c->rhs = 1; c->u = 0.1; c->permid = -1; c->stor = (d[0] >> 2) & 1; }
static void sI_b(const int *d, vcase *c)   /* DEV_1(BASE(6)) subset */
{ c->n = c->m = 6; c->pat = dev1_pattern(6, base_pattern(6, d[0]), d[1]); c->vals = VALS_I[d[2]]; set_opts_digits(c, d[3], d[4], d[5], d[6], d[7], d[8]); c->trans = d[9]; c->colperm = CP_I[d[10]]; set_tune(c, TUNE_I[d[11]]); c->type = d[12]; c->equil = 1; c->nrhs = 1; c->rhs = 1; c->u = 0.1; c->permid = -1; c->stor = d[1] & 1; }
static const family FIQ[] = {
    { "ALL(1..3) x vals{V1,V0,V4,V5} x drop{NODROP,BASIC,BASIC|AREA,BASIC|PROWS} x tol{1e-4,.5} x fill{10,1} x norm{inf,1} x milu{SILU,SMILU_2} x rowperm{none,MC64} x trans{N,T} x colperm{NAT,COLAMD} x tune{default,(2,1,2..)} x type4", 12, { N_ALL123, 4, 4, 2, 2, 2, 2, 2, 2, 2, 2, 4 }, sI_a },
    { "DEV_1(BASE(6)) first 5 deviations x vals2 x drop4 x tol2 x fill2 x norm2 x milu2 x rowperm2 x trans{N,T} x colperm2 x tune2 x type4", 13, { 9, 5, 2, 4, 2, 2, 2, 2, 2, 2, 2, 2, 4 }, sI_b },
};
static const family FIT[] = {
    { "ALL(1..3) x vals5 x drop7 x tol3 x fill3 x norm3 x milu4 x rowperm2 x trans3 x colperm3 x tune3 x type4", 12, { N_ALL123, 5, 7, 3, 3, 3, 4, 2, 3, 3, 3, 4 }, sI_a },
    { "DEV_1(BASE(6)) first 12 deviations x vals2 x drop7 x tol3 x fill3 x norm3 x milu4 x rowperm2 x trans3 x colperm3 x tune3 x {d,z}", 13, { 9, 12, 2, 7, 3, 3, 3, 4, 2, 3, 3, 3, 2 }, sI_b },
};
static void sI_bt(const int *d, vcase *c) { int e[13]; memcpy(e, d, sizeof e); e[12] = d[12] ? TZ : TD; sI_b(e, c); }
#define NF(F) ((int)(sizeof F / sizeof *F))
static long sz_I(int tier) { return tier ? fam_total(FIT, NF(FIT)) : fam_total(FIQ, NF(FIQ)); }
static void dec_I(int tier, long idx, vcase *c) { if (tier) { fam_decode(FIT, NF(FIT), idx, c); if (c->fam == 1) { /* {d,z} */ c->type = (c->type == 0) ? TD : TZ; } } else fam_decode(FIQ, NF(FIQ), idx, c); }
static void desc_I(int tier, char *b, size_t cap) { if (tier) fam_describe(FIT, NF(FIT), b, cap); else fam_describe(FIQ, NF(FIQ), b, cap); }

static void run_C15(const vcase *c, vres *r)
{
    int n = c->n; const vf_type *T = vf_T(c->type);
    if (pat_struct_rank(n, n, c->pat) < n) { r->status = 2; return; }
    (void)sI_bt;
    xs s; xs_init(&s, T, n, c->pat, c->vals, c->stor); s.ilu = 1;
    dmat A_in = s.A_orig, B, B_in, B_after; make_rhs(T, &A_in, c->trans, c->rhs, 1, &B); xs_set_rhs(&s, &B, 0, 0); dn_to_dense(&s.B, &B_in);
    superlu_options_t opt; ilu_set_default_options(&opt); opt.PrintStat = NO;
    int kk = c->k, drop = kk % 7, tol = (kk / 7) % 3, fill = (kk / 21) % 3, norm = (kk / 63) % 3, milu = (kk / 189) % 4;
    opt.ILU_DropRule = DROPS[drop]; opt.ILU_DropTol = TOLS[tol]; opt.ILU_FillFactor = FILLS[fill]; opt.ILU_Norm = NORMS[norm]; opt.ILU_MILU = MILUS[milu];
    opt.RowPerm = c->aux ? LargeDiag_MC64 : NOROWPERM; opt.Trans = (trans_t[]){ NOTRANS, TRANS, CONJ }[c->trans];
    opt.ColPerm = (colperm_t[]){ NATURAL, MMD_ATA, MMD_AT_PLUS_A, COLAMD }[c->colperm]; opt.Equil = c->equil ? YES : NO; opt.DiagPivotThresh = c->u;
    opt.ConditionNumber = (c->pat & 1) ? YES : NO; opt.PivotGrowth = NO;
    int_t *ind0 = intMalloc(s.S.nnz ? s.S.nnz : 1), *ptr0 = intMalloc(n + 1); memcpy(ind0, s.S.ind, sizeof(int_t) * s.S.nnz); memcpy(ptr0, s.S.ptr, sizeof(int_t) * (n + 1));
    memset(&s.Glu, 0, sizeof s.Glu);
    xs_call(&s, &opt);
    dn_to_dense(&s.B, &B_after);
    long info = s.info;
    WK_COUNT(c->aux ? K_MC64 : K_NOR); WK_COUNT(K_TN + c->trans); if (c->stor) WK_COUNT(K_NR); if (DROPS[drop] & DROP_SECONDARY) WK_COUNT(K_SEC); if (milu) WK_COUNT(K_MILU);
    r->nontrivial = (n >= 2 && s.S.nnz > n);
    r->outcome = fnv(fnv(0, &info, sizeof info), s.perm_c, sizeof(int) * n);
    if (memcmp(ind0, s.S.ind, sizeof(int_t) * s.S.nnz) || memcmp(ptr0, s.S.ptr, sizeof(int_t) * (n + 1))) { wk_fail(r, "row-indices-not-restored", "xgsisx returned A with modified row indices / column pointers"); goto done; }
    if (info < 0 || info > n + 1) { wk_fail(r, "unexpected-info", "info=%ld from the ILU driver on a structurally nonsingular matrix (n=%d)", info, n); goto done; }
    if (info == n + 1 && opt.ConditionNumber != YES) { wk_fail(r, "unexpected-info", "info=n+1 although ConditionNumber=NO"); goto done; }
    if (info == 0) WK_COUNT(K_I0); else if (info <= n) WK_COUNT(K_REPL); else WK_COUNT(K_WARN);
    if (!is_perm(s.perm_r, n) || !is_perm(s.perm_c, n)) { wk_fail(r, "perm-not-bijection", "perm_r / perm_c is not a permutation (info=%ld)", info); goto done; }
    {
        verdict vd; memset(&vd, 0, sizeof vd);
        if (check_LU_structure(T, &s.L, &s.U, n, n, 1, &vd)) { wk_fail(r, "structure", "%s", vd.msg); goto done; }
        const SCformat *Ls = s.L.Store; if (Ls->nsuper < n - 1) WK_COUNT(K_MULTI);
        dmat Ld, Ud; if (expand_L(T, &s.L, &Ld) || expand_U(T, &s.L, &s.U, &Ud)) { wk_fail(r, "structure", "cannot expand factors"); goto done; }
        for (int j = 0; j < n; j++) { xc u = DM(&Ud, j, j); if (u == 0 || !isfinite((double)creall(u)) || !isfinite((double)cimagl(u))) { wk_fail(r, "bad-diagonal", "U(%d,%d) = %Lg%+Lgi (info=%ld)", j, j, creall(u), cimagl(u), info); goto done; } }
        /* scaling of A and B as documented */
        char e = s.equed[0]; WK_COUNT(e == 'N' ? K_EN : e == 'R' ? K_ER : e == 'C' ? K_EC : K_EB);
        if (o_scaling(&s, &A_in, &B_in, c->trans, c->equil, r)) goto done;
        /* X is exactly the preconditioner solve defined by the returned factors: residual w.r.t. M = Pr' L U Pc' */
        int notran_eff = (c->trans == 0); if (c->stor == 1) notran_eff = !notran_eff;
        int rowequ = (e == 'R' || e == 'B'), colequ = (e == 'C' || e == 'B');
        dmat M, G, Xd, Xs; memset(&M, 0, sizeof M); M.m = M.n = n;
        for (int i = 0; i < n; i++) for (int j = 0; j < n; j++) { int pi = s.perm_r[i], pj = s.perm_c[j]; xc acc = 0; for (int k2 = 0; k2 <= pi && k2 <= pj; k2++) acc += DM(&Ld, pi, k2) * DM(&Ud, k2, pj); DM(&M, i, j) = acc; DZ(&M, i, j) = 1; }
        build_G(&Ld, &Ud, s.perm_r, s.perm_c, 0, &G);
        dn_to_dense(&s.X, &Xd); Xs = Xd;
        for (int i = 0; i < n; i++) { xr f = (notran_eff && colequ) ? T->rld(s.Cbuf, i) : (!notran_eff && rowequ) ? T->rld(s.Rbuf, i) : 1; DM(&Xs, i, 0) = DM(&Xd, i, 0) / f; }
        /* effective operation on the factored orientation */
        int op = (c->stor == 0) ? c->trans : (c->trans == 0 ? 1 : 0);
        double ratio = 0; vres r2; memset(&r2, 0, sizeof r2);
        if (o_residual(T, &M, op, &G, &B_after, &Xs, 16.0, &r2, &ratio)) {
            if (c->stor == 1 && c->trans == 2 && T->cplx) { WK_COUNT(K_QUIRK); }
            wk_fail(r, "solve-not-factor-solve", "X is not the solve with the returned factors: %s", r2.msg); goto done;
        }
        WK_RATIO(0, ratio);
        /* dropping disabled and no pivot replaced: complete-LU guarantees */
        int nodrop = (DROPS[drop] == NODROP) || (TOLS[tol] == 0.0 && !(DROPS[drop] & DROP_SECONDARY));
        if (nodrop && info == 0 && milu == 0) {
            dmat A1, F; xs_current_A(&s, &A1); if (c->stor == 0) F = A1; else transpose_dm(&A1, &F);
            if (check_LU_identity(T, &F, &Ld, &Ud, s.perm_r, s.perm_c, 16.0, &vd)) { wk_fail(r, "nodrop-not-exact", "dropping disabled, no pivot replaced, but %s", vd.msg); goto done; }
            WK_RATIO(1, vd.ratio); WK_COUNT(K_EXACT);
        }
        /* statistic: repeated rows in U */
        { const NCformat *Us = s.U.Store; for (int j = 0; j < n; j++) { unsigned seen = 0; for (int_t k2 = Us->colptr[j]; k2 < Us->colptr[j + 1]; k2++) { if (seen >> Us->rowind[k2] & 1) { WK_COUNT(K_UREP); j = n; break; } seen |= 1u << Us->rowind[k2]; } } }
    }
done:
    SUPERLU_FREE(ind0); SUPERLU_FREE(ptr0);
    xs_destroy(&s);
}
static const char RULE15[] = "full Cartesian product of the listed option lists (drop rule x tolerance x fill factor x norm x MILU x row permutation x Trans x ordering x tuning x type) on every structurally nonsingular pattern of the families, through xgsisx; non-trivial = n>=2 with off-diagonal entries";
const vf_check vf_checks[] = { { "C15", sz_I, dec_I, run_C15, CNT, RAT, RULE15, desc_I } };
const int vf_nchecks = 1;
int main(int argc, char **argv) { return wk_main(argc, argv); }
