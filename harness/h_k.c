/* Engine E1, kernel-level checks: C10 (orderings / elimination tree), C11 (equilibration). */
#include "xs.h"
#include "slu_ddefs.h"

/* ========================================================================== C10 */
static const char *const CNT10[] = { "natural", "mmd_ata", "mmd_at_plus_a", "colamd", "my_permc", "rectangular", "symmetric_mode", "postorder_checked", "nontrivial_trees", "large_n", "empty_columns", "value_independence_checked", "samepattern_untouched", NULL };
enum { K_NAT, K_ATA, K_APA, K_COL, K_MY, K_RECT, K_SYM, K_POST, K_TREE, K_LARGE, K_EMPTYC, K_VALIND, K_SAMEP };
static const char *const RAT0[] = { NULL };
#define LN 140
/* pattern provider: small patterns via bitmask, large structured ones via (kind) */
static int has_entry(const vcase *c, int i, int j)
{
    int m = c->m, n = c->n;
    if (c->aux == 0) return (int)((c->pat >> (i * n + j)) & 1);
    int kind = (int)c->pat, d = (i == j);
    switch (kind) {
    case 0: return d;
    case 1: return d || i == j + 1 || j == i + 1;
    case 2: return d || i == m - 1 || j == n - 1;
    case 3: return d || i == 0 || j == 0;
    case 4: return d || i == 0;                                   /* one dense row */
    case 5: return d || j == 0;                                   /* one dense column */
    case 6: return d || i == 3 || i == m / 2;                     /* two dense rows */
    case 7: return (d && (j % 17) != 5) || i == m / 2;            /* dense row, some columns live only in it */
    case 8: return (j >= 1 && j <= 20) ? (i == 0) : (d || i == 0); /* columns 1..20 have their only entry in the dense row 0 */
    case 9: return d || ((i * 131 + j * 71 + (i * j) % 13) % 29 == 0) || i == 7 || j == 11;
    case 10: return (j % 9 == 4) ? 0 : (d || i == j + 2);          /* empty columns */
    case 11: return (i % 11 == 3) ? 0 : (d || j == i + 1 || i == m - 2); /* empty rows + dense row */
    default: return d;
    }
}
/* reference column elimination tree of M = A*Pc (pattern), from its definition: symbolic Cholesky of M'M */
static void ref_coletree(int m, int n, unsigned char (*M)[LN], int *parent)
{
    static unsigned char B[LN][LN];
    for (int i = 0; i < n; i++) for (int j = 0; j < n; j++) B[i][j] = 0;
    for (int r = 0; r < m; r++) { int cols[LN], nc = 0; for (int j = 0; j < n; j++) if (M[r][j]) cols[nc++] = j; for (int a = 0; a < nc; a++) for (int b = 0; b < nc; b++) B[cols[a]][cols[b]] = 1; }
    for (int k = 0; k < n; k++) {
        int p = n; for (int i = k + 1; i < n; i++) if (B[i][k]) { p = i; break; }
        parent[k] = p;
        if (p < n) for (int i = k + 1; i < n; i++) if (B[i][k]) { B[i][p] = 1; B[p][i] = 1; }   /* struct(L_k) \ {p} joins struct of the parent column: enough for parents */
    }
}
static int perm_ok(const int *p, int n) { static unsigned char seen[LN]; memset(seen, 0, n); for (int i = 0; i < n; i++) { if (p[i] < 0 || p[i] >= n || seen[p[i]]) return 0; seen[p[i]] = 1; } return 1; }

static void run_C10(const vcase *c, vres *r)
{
    int m = c->m, n = c->n; const vf_type *T = vf_T(TD);
    static unsigned char Ap[LN][LN], M[LN][LN];
    int_t nnz = 0; for (int i = 0; i < m; i++) for (int j = 0; j < n; j++) { Ap[i][j] = (unsigned char)has_entry(c, i, j); nnz += Ap[i][j]; }
    int_t *colptr = intMalloc(n + 1), *rowind = intMalloc(nnz ? nnz : 1); double *val = doubleMalloc(nnz ? nnz : 1), *val2 = doubleMalloc(nnz ? nnz : 1);
    int_t k = 0; int emptyc = 0;
    for (int j = 0; j < n; j++) { colptr[j] = k; for (int i = 0; i < m; i++) if (Ap[i][j]) { rowind[k] = i; val[k] = 1.0 + i + 2 * j; val2[k] = ((i + j) & 1) ? -3.5 : 1e-6 * (1 + i); k++; } if (colptr[j] == k) emptyc = 1; }
    colptr[n] = k;
    SuperMatrix A, A2, AC; memset(&AC, 0, sizeof AC);
    dCreate_CompCol_Matrix(&A, m, n, nnz, val, rowind, colptr, SLU_NC, SLU_D, SLU_GE);
    dCreate_CompCol_Matrix(&A2, m, n, nnz, val2, rowind, colptr, SLU_NC, SLU_D, SLU_GE);
    int *perm_c = int32Malloc(n), *perm_c2 = int32Malloc(n), *perm_in = int32Malloc(n), *etree = int32Malloc(n), *etree2 = int32Malloc(n);
    static const colperm_t cp[] = { NATURAL, MMD_ATA, MMD_AT_PLUS_A, COLAMD, MY_PERMC };
    superlu_options_t opt; set_default_options(&opt); opt.ColPerm = cp[c->colperm]; opt.SymmetricMode = c->sym ? YES : NO; opt.Fact = DOFACT;
    WK_COUNT(K_NAT + c->colperm); if (m != n) WK_COUNT(K_RECT); if (c->sym) WK_COUNT(K_SYM); if (n > 20) WK_COUNT(K_LARGE); if (emptyc) WK_COUNT(K_EMPTYC);
    r->nontrivial = (n >= 2 && nnz > 0);
    for (int i = 0; i < n; i++) { perm_c[i] = perm_c2[i] = -9; etree[i] = etree2[i] = -9; }
    if (c->colperm == 4) { if (n <= NMAX && c->permid >= 0) perm_unrank(n, c->permid, perm_c); else for (int i = 0; i < n; i++) perm_c[i] = (i * 7 + 3 + c->permid) % n; memcpy(perm_c2, perm_c, sizeof(int) * n); }
    else {
        get_perm_c(c->colperm, &A, perm_c);
        get_perm_c(c->colperm, &A2, perm_c2);
        if (!perm_ok(perm_c, n)) { wk_fail(r, "perm_c-not-bijection", "get_perm_c(%d) did not return a permutation", c->colperm); goto done; }
        if (memcmp(perm_c, perm_c2, sizeof(int) * n)) { wk_fail(r, "perm_c-depends-on-values", "get_perm_c(%d) differs for two value sets on the same pattern", c->colperm); goto done; }
        WK_COUNT(K_VALIND);
    }
    if (!perm_ok(perm_c, n)) { wk_fail(r, "harness", "bad input permutation"); goto done; }
    memcpy(perm_in, perm_c, sizeof(int) * n);
    sp_preorder(&opt, &A, perm_c, etree, &AC);
    {
        if (!perm_ok(perm_c, n)) { wk_fail(r, "perm_c-not-bijection", "sp_preorder returned a perm_c that is not a permutation"); goto done; }
        NCPformat *ACs = AC.Store;
        if (AC.Stype != SLU_NCP || AC.nrow != m || AC.ncol != n || ACs->rowind != rowind || ACs->nzval != (void *)val || ACs->nnz != nnz) { wk_fail(r, "AC-header", "permuted-column view has wrong header / array pointers"); goto done; }
        for (int i = 0; i < n; i++) if (ACs->colbeg[perm_c[i]] != colptr[i] || ACs->colend[perm_c[i]] != colptr[i + 1]) { wk_fail(r, "AC-columns", "column %d of A is not column perm_c[%d]=%d of the permuted view", i, i, perm_c[i]); goto done; }
        /* reference etree of A*Pc_out */
        int ref[LN], refin[LN];
        for (int i = 0; i < m; i++) for (int j = 0; j < n; j++) M[i][perm_c[j]] = Ap[i][j];
        ref_coletree(m, n, M, ref);
        for (int j = 0; j < n; j++) if (etree[j] != ref[j]) { wk_fail(r, "etree-wrong", "etree[%d]=%d but the column elimination tree of A*Pc has parent %d", j, etree[j], ref[j]); goto done; }
        for (int j = 0; j < n; j++) if (!(etree[j] > j && etree[j] <= n)) { wk_fail(r, "etree-parent-order", "etree[%d]=%d is not above its child", j, etree[j]); goto done; }
        int nonroot = 0; for (int j = 0; j < n; j++) if (etree[j] < n) nonroot++;
        if (nonroot) WK_COUNT(K_TREE);
        if (!c->sym) {
            /* postorder: every subtree occupies consecutive indices ending at its root */
            int size[LN], first[LN];
            for (int j = 0; j < n; j++) { size[j] = 1; first[j] = j; }
            for (int j = 0; j < n; j++) if (etree[j] < n) { size[etree[j]] += size[j]; if (first[j] < first[etree[j]]) first[etree[j]] = first[j]; }
            for (int j = 0; j < n; j++) if (first[j] != j - size[j] + 1) { wk_fail(r, "not-postordered", "subtree of %d has %d nodes but starts at %d", j, size[j], first[j]); goto done; }
            WK_COUNT(K_POST);
            /* the caller's ordering is respected up to that postorder: q = perm_out o perm_in^-1 relabels the etree of A*Pc_in */
            int q[LN], ipin[LN];
            for (int i = 0; i < n; i++) ipin[perm_in[i]] = i;
            for (int jpos = 0; jpos < n; jpos++) q[jpos] = perm_c[ipin[jpos]];
            for (int i = 0; i < m; i++) for (int j = 0; j < n; j++) M[i][perm_in[j]] = Ap[i][j];
            ref_coletree(m, n, M, refin);
            for (int j = 0; j < n; j++) { int want = refin[j] < n ? q[refin[j]] : n; if (etree[q[j]] != want) { wk_fail(r, "ordering-not-respected", "the final ordering is not a relabelling of the caller's elimination tree (node %d)", j); goto done; } }
        } else {
            if (memcmp(perm_c, perm_in, sizeof(int) * n)) { wk_fail(r, "perm_c-changed-in-symmetric-mode", "SymmetricMode=YES must not postorder, but perm_c changed"); goto done; }
        }
        r->outcome = fnv(fnv(0, perm_c, sizeof(int) * n), etree, sizeof(int) * n);
    }
    /* Fact != DOFACT: perm_c and etree are inputs and stay untouched */
    {
        SuperMatrix AC2; memset(&AC2, 0, sizeof AC2); superlu_options_t o2 = opt; o2.Fact = SamePattern;
        memcpy(perm_c2, perm_c, sizeof(int) * n); memcpy(etree2, etree, sizeof(int) * n);
        sp_preorder(&o2, &A, perm_c2, etree2, &AC2);
        int same = !memcmp(perm_c2, perm_c, sizeof(int) * n) && !memcmp(etree2, etree, sizeof(int) * n);
        NCPformat *AC2s = AC2.Store;
        for (int i = 0; i < n && same; i++) if (AC2s->colbeg[perm_c[i]] != colptr[i] || AC2s->colend[perm_c[i]] != colptr[i + 1]) same = 0;
        Destroy_CompCol_Permuted(&AC2);
        if (!same) { wk_fail(r, "samepattern-modified", "sp_preorder with Fact=SamePattern modified perm_c/etree or built a wrong view"); goto done; }
        WK_COUNT(K_SAMEP);
    }
done:
    if (AC.Store) Destroy_CompCol_Permuted(&AC);
    SUPERLU_FREE(perm_c); SUPERLU_FREE(perm_c2); SUPERLU_FREE(perm_in); SUPERLU_FREE(etree); SUPERLU_FREE(etree2);
    SUPERLU_FREE(A.Store); SUPERLU_FREE(A2.Store); SUPERLU_FREE(colptr); SUPERLU_FREE(rowind); SUPERLU_FREE(val); SUPERLU_FREE(val2);
}

/* families */
static void s10_small(const int *d, vcase *c) { all123(d[0], &c->n, &c->pat); c->m = c->n; c->colperm = d[1]; c->sym = d[2]; c->aux = 0; c->permid = -1; }
static void s10_all4(const int *d, vcase *c) { c->n = c->m = 4; c->pat = (uint64_t)d[0]; c->colperm = d[1]; c->sym = d[2]; c->aux = 0; }
#define NRECT 13
static const int RM[NRECT] = { 2, 3, 3, 4, 4, 1, 2, 5, 3, 1, 2, 2, 3 }, RN[NRECT] = { 1, 1, 2, 2, 3, 2, 3, 3, 4, 3, 4, 5, 5 };
static const int RECT_CP[] = { 0, 1, 3 };
static long rect_off[NRECT + 1]; static long rect_total(void) { long s = 0; for (int k = 0; k < NRECT; k++) { rect_off[k] = s; s += 1L << (RM[k] * RN[k]); } rect_off[NRECT] = s; return s; }
static void s10_rect(const int *d, vcase *c) { rect_total(); int k = 0; while (d[0] >= rect_off[k + 1]) k++; c->m = RM[k]; c->n = RN[k]; c->pat = (uint64_t)(d[0] - rect_off[k]); c->colperm = RECT_CP[d[1]]; c->sym = d[2]; c->aux = 0; }
static void s10_dev(const int *d, vcase *c) { int n = d[3] ? 8 : 6; c->n = c->m = n; c->pat = dev1_pattern(n, base_pattern(n, d[0]), d[1] % (n * n + 1)); c->colperm = d[2] % 4; c->sym = d[2] / 4; c->aux = 0; }
static void s10_my4(const int *d, vcase *c) { c->n = c->m = 4; c->pat = (uint64_t)d[0]; c->colperm = 4; c->permid = d[1]; c->sym = d[2]; c->aux = 0; }
static void s10_my6(const int *d, vcase *c) { c->n = c->m = 6; c->pat = dev1_pattern(6, base_pattern(6, d[0]), d[1]); c->colperm = 4; c->permid = d[2] * 29 + 1; c->sym = d[3]; c->aux = 0; }
static const int LARGE_N[] = { 101, 128, 110, 137 };
static void s10_large(const int *d, vcase *c) { c->n = LARGE_N[d[0]]; c->m = c->n + (d[3] == 1 ? 3 : d[3] == 2 ? -9 : 0); c->pat = (uint64_t)d[1]; c->aux = 1; c->colperm = (d[3] != 0 && d[2] == 2) ? 1 : d[2]; c->sym = d[4]; }
static const family F10Q[] = {
    { "ALL(1..3) x {NATURAL,MMD_ATA,MMD_AT+A,COLAMD} x SymmetricMode2", 3, { N_ALL123, 4, 2 }, s10_small },
    { "ALL(4) x 4 orderings x SymmetricMode2", 3, { N_ALL4, 4, 2 }, s10_all4 },
    { "RECT all patterns of (2x1,3x1,3x2,4x2,4x3,1x2,2x3,5x3,3x4,1x3,2x4,2x5,3x5) x {NATURAL,MMD_ATA,COLAMD} x sym2", 3, { 2 + 8 + 64 + 256 + 4096 + 4 + 64 + 32768 + 4096 + 8 + 256 + 1024 + 32768, 3, 2 }, s10_rect },
    { "DEV_1(BASE(6)), DEV_1(BASE(8)) x 4 orderings x sym2", 4, { 9, 65, 8, 2 }, s10_dev },
    { "MY_PERMC: ALL(4) x all 4! orders x sym2", 3, { N_ALL4, 24, 2 }, s10_my4 },
    { "MY_PERMC: DEV_1(BASE(6)) x 24 fixed orders x sym2", 4, { 9, 37, 24, 2 }, s10_my6 },
    { "large structured (n in {101,128,110,137}; dense rows/columns, empty rows/columns, columns living only in dense rows) x 4 orderings x {square, tall (m=n+3), wide (m=n-9)} x sym2", 5, { 4, 12, 4, 3, 2 }, s10_large },
};
#define NF(F) ((int)(sizeof F / sizeof *F))
static long sz_10(int tier) { return fam_total(F10Q, NF(F10Q)); }
static void dec_10(int tier, long idx, vcase *c) { fam_decode(F10Q, NF(F10Q), idx, c); }
static void desc_10(int tier, char *b, size_t cap) { fam_describe(F10Q, NF(F10Q), b, cap); }
static const char RULE10[] = "every pattern of the listed families x ordering method x SymmetricMode is passed through get_perm_c and sp_preorder; the returned etree is compared with the column elimination tree computed from its definition (symbolic Cholesky of (A Pc)'(A Pc)); non-trivial = n>=2 and at least one entry";

/* ========================================================================== C11 */
static const char *const CNT11[] = { "info_zero", "info_row", "info_col", "equed_N", "equed_R", "equed_C", "equed_B", "clamped_rows", "clamped_cols", "rect", "subnormal_inputs", "huge_inputs", "threshold_sweep", "driver_conformance_calls", "driver_scaled", NULL };
enum { E_OK, E_ROW, E_COL, E_N, E_R, E_C, E_B, E_CLR, E_CLC, E_RECT, E_SUB, E_HUGE, E_SWEEP, E_DRV, E_DRVS };
static const char *const RAT11[] = { "row_max_dev_over_4eps", "col_max_dev_over_4eps", NULL };

/* magnitude alphabet per type */
static double mag_level(const vf_type *T, int lv)
{
    int single = (T->id == TS || T->id == TC); double sf = T->sfmin, big = single ? 3.0e38 : 1.6e308;
    switch (lv) {
    case 0: return single ? 1.4e-45 : 4.9e-324;       /* smallest subnormal */
    case 1: return sf / 2;
    case 2: return sf;
    case 3: return single ? 1e-30 : 1e-150;
    case 4: return 1.0;
    case 5: return 3.0;
    case 6: return single ? 1e30 : 1e150;
    case 7: return 1.0 / sf / 4;
    default: return big;
    }
}
/* assignment schemes: which level each entry gets */
static int level_of(int scheme, int i, int j, int m, int n, int k)
{
    switch (scheme) {
    case 0: return 4;
    case 1: return 5 - (i + j) % 2;
    case 2: return (i % 3 == 0) ? 6 : (i % 3 == 1) ? 4 : 3;             /* rows on different scales */
    case 3: return (j % 3 == 0) ? 6 : (j % 3 == 1) ? 4 : 3;             /* columns on different scales */
    case 4: return (i * n + j == k) ? 8 : 4;                             /* one MAX entry at position k */
    case 5: return (i * n + j == k) ? 0 : 4;                             /* one subnormal entry at position k */
    case 6: return (i * n + j == k) ? 1 : 5;
    case 7: return (i * n + j == k) ? 7 : 3;
    case 8: return 2 + (i + 2 * j) % 3;                                  /* sfmin .. 1 */
    case 9: return 6 + (i + j) % 3;                                      /* huge */
    case 10: return (i == k % (m > 0 ? m : 1)) ? 0 : 4;                  /* a whole row of subnormals */
    default: return (j == k % (n > 0 ? n : 1)) ? 8 : 4;                  /* a whole column at MAX */
    }
}
static void run_C11(const vcase *c, vres *r)
{
    const vf_type *T = vf_T(c->type); int m = c->m, n = c->n; dmat A; memset(&A, 0, sizeof A); A.m = m; A.n = n;
    for (int i = 0; i < m; i++) for (int j = 0; j < n; j++) if ((c->pat >> (i * n + j)) & 1) {
        int lv = level_of(c->vals, i, j, m, n, c->k); double v = mag_level(T, lv) * (((i + j) & 1) ? -1 : 1);
        double _Complex z = v; if (T->cplx) { int ph = (i + 2 * j) & 3; z = ph == 0 ? v : ph == 1 ? v * I : ph == 2 ? 0.5 * v + 0.5 * v * I : -v; }
        DM(&A, i, j) = (xc)z; DZ(&A, i, j) = 1;
        if (lv <= 1) WK_COUNT(E_SUB); if (lv >= 7) WK_COUNT(E_HUGE);
    }
    vf_sparse S; sp_from_dense(&S, T, &A, 0);
    if (m != n) WK_COUNT(E_RECT);
    char Rb[NMAX * 8], Cb[NMAX * 8], rc[8], cc[8], am[8]; int info = -99;
    for (int i = 0; i < NMAX; i++) { T->rst(Rb, i, -1); T->rst(Cb, i, -1); }
    T->gsequ(&S.A, Rb, Cb, rc, cc, am, &info);
    r->nontrivial = (S.nnz > 0); r->outcome = (uint64_t)(info + 100);
    /* expected info: first all-zero row (1-based), else m + first all-zero column; explicit zeros count as zero */
    int want = 0;
    for (int i = 0; i < m && !want; i++) { int any = 0; for (int j = 0; j < n; j++) if (DZ(&A, i, j) && xmag(T, DM(&A, i, j)) != 0) any = 1; if (!any) want = i + 1; }
    if (!want) for (int j = 0; j < n && !want; j++) { int any = 0; for (int i = 0; i < m; i++) if (DZ(&A, i, j) && xmag(T, DM(&A, i, j)) != 0) any = 1; if (!any) want = m + j + 1; }
    xr sf = T->sfmin, bigv = 1.0L / T->sfmin, eps4 = 4 * (xr)T->eps;
    /* row pass is well-defined even when a column is empty; judge what the routine promises for its info */
    if (info != want && (want == 0 || want > info) && info > m && info <= m + n) {
        /* F19: |a_ij| * R_i can underflow to zero in working precision for every entry of a column; the routine then reports that
           (non-zero) column as empty.  Classify exactly that situation. */
        int jj = info - m - 1, first = -1;
        for (int j = 0; j < n && first < 0; j++) { xr cm = 0; for (int i = 0; i < m; i++) if (DZ(&A, i, j)) { xr a; if (T->id == TS || T->id == TC) a = (xr)(float)((float)xmag(T, DM(&A, i, j)) * (float)T->rld(Rb, i)); else a = (xr)(double)((double)xmag(T, DM(&A, i, j)) * (double)T->rld(Rb, i)); if (a > cm) cm = a; } if (cm == 0) first = j; }
        if (first == jj) { wk_fail(r, "gsequ-col-underflow", "xgsequ info=%d reports column %d as all-zero although it has non-zero entries: every |a_ij|*R_i underflows to zero", info, jj); goto done; }
    }
    if (info != want) {
        wk_fail(r, "gsequ-info", "xgsequ info=%d, expected %d (first all-zero row i -> i, else first all-zero column j -> m+j)", info, want); goto done;
    }
    if (info != 0) { WK_COUNT(info <= m ? E_ROW : E_COL); goto done; }
    WK_COUNT(E_OK);
    {
        xr rowmax[NMAX], rcmin = bigv, rcmax = 0, amax = 0;
        for (int i = 0; i < m; i++) { rowmax[i] = 0; for (int j = 0; j < n; j++) if (DZ(&A, i, j)) { xr a = xmag(T, DM(&A, i, j)); if (a > rowmax[i]) rowmax[i] = a; } if (rowmax[i] > rcmax) rcmax = rowmax[i]; if (rowmax[i] < rcmin) rcmin = rowmax[i]; }
        amax = rcmax;
        xr gam = T->rld(am, 0);
        if (fabsl(gam - amax) > eps4 * amax) { wk_fail(r, "amax", "amax=%Lg, largest entry is %Lg", gam, amax); goto done; }
        for (int i = 0; i < m; i++) {
            xr Ri = T->rld(Rb, i);
            if (!(Ri > 0) || !isfinite((double)Ri)) { wk_fail(r, "R-range", "R[%d]=%Lg not positive finite", i, Ri); goto done; }
            if (Ri < sf * (1 - eps4) || Ri > bigv * (1 + eps4)) { wk_fail(r, "R-range", "R[%d]=%Lg outside the safe range [%Lg,%Lg]", i, Ri, sf, bigv); goto done; }
            xr clamp = rowmax[i] < sf ? sf : rowmax[i] > bigv ? bigv : rowmax[i];
            if (clamp != rowmax[i]) WK_COUNT(E_CLR);
            xr prod = Ri * clamp;
            if (fabsl(prod - 1) > eps4) { wk_fail(r, "R-definition", "R[%d]*max|a_i.| = %Lg (R=%Lg, row max %Lg clamped to %Lg), expected 1", i, prod, Ri, rowmax[i], clamp); goto done; }
            WK_RATIO(0, (double)(fabsl(prod - 1) / eps4));
        }
        xr rowcnd_want = (rcmin < sf ? sf : rcmin) / (rcmax > bigv ? bigv : rcmax), g = T->rld(rc, 0);
        if (fabsl(g - rowcnd_want) > eps4 * rowcnd_want + (xr)T->sfmin) { wk_fail(r, "rowcnd", "rowcnd=%Lg, definition gives %Lg", g, rowcnd_want); goto done; }
        xr colmax[NMAX], ccmin = bigv, ccmax = 0;
        for (int j = 0; j < n; j++) {
            colmax[j] = 0;
            for (int i = 0; i < m; i++) if (DZ(&A, i, j)) {
                /* the routine multiplies in working precision */
                xr a;
                if (T->id == TS || T->id == TC) a = (xr)(float)((float)xmag(T, DM(&A, i, j)) * (float)T->rld(Rb, i)); else a = (xr)(double)((double)xmag(T, DM(&A, i, j)) * (double)T->rld(Rb, i));
                if (a > colmax[j]) colmax[j] = a;
            }
            if (colmax[j] > ccmax) ccmax = colmax[j]; if (colmax[j] < ccmin) ccmin = colmax[j];
        }
        for (int j = 0; j < n; j++) {
            xr Cj = T->rld(Cb, j);
            if (!(Cj > 0) || !isfinite((double)Cj)) { wk_fail(r, "C-range", "C[%d]=%Lg not positive finite", j, Cj); goto done; }
            if (Cj < sf * (1 - eps4) || Cj > bigv * (1 + eps4)) { wk_fail(r, "C-range", "C[%d]=%Lg outside the safe range", j, Cj); goto done; }
            xr clamp = colmax[j] < sf ? sf : colmax[j] > bigv ? bigv : colmax[j];
            if (clamp != colmax[j]) WK_COUNT(E_CLC);
            xr prod = Cj * clamp;
            if (fabsl(prod - 1) > 2 * eps4) { wk_fail(r, "C-definition", "C[%d]*max|r_i a_ij| = %Lg (C=%Lg, scaled column max %Lg)", j, prod, Cj, colmax[j]); goto done; }
            WK_RATIO(1, (double)(fabsl(prod - 1) / (2 * eps4)));
        }
        xr colcnd_want = (ccmin < sf ? sf : ccmin) / (ccmax > bigv ? bigv : ccmax), gc = T->rld(cc, 0);
        if (fabsl(gc - colcnd_want) > 2 * eps4 * colcnd_want + (xr)T->sfmin) { wk_fail(r, "colcnd", "colcnd=%Lg, definition gives %Lg", gc, colcnd_want); goto done; }
        /* xlaqgs: documented threshold rule and exact application */
        char equed = '?'; dmat A0 = A, A1;
        double rowcnd = (double)T->rld(rc, 0), colcnd = (double)T->rld(cc, 0), amaxd = (double)T->rld(am, 0);
        double small, large; int single = (T->id == TS || T->id == TC);
        /* SMALL = xmach("Safe minimum") / xmach("Precision"), Precision = eps * base */
        if (single) { float s = (float)T->sfmin / ((float)T->eps * 2.0f); small = s; large = 1.0f / s; } else { small = T->sfmin / (T->eps * 2.0); large = 1.0 / small; }
        if (c->aux == 1) {
            /* threshold sweep: ROWCND, COLCND and AMAX are inputs of xlaqgs; every combination of values at, just below and just above the documented
               thresholds (0.1; SMALL and LARGE) is passed, whatever xgsequ computed.  The values are the ones the routine sees in working precision. */
            int a = c->k % 5, b = (c->k / 5) % 5, g = (c->k / 25) % 5;
            double th[5]; th[0] = single ? (double)nextafterf(0.1f, 0.0f) : nextafter(0.1, 0.0); th[1] = single ? (double)0.1f : 0.1; th[2] = single ? (double)nextafterf(0.1f, 1.0f) : nextafter(0.1, 1.0); th[3] = 0.0; th[4] = 1.0;
            if (single) th[0] = (double)nextafterf(nextafterf(0.1f, 0.0f), 0.0f);      /* 0.1f itself lies above the double constant 0.1; two steps down is below it */
            double av[5]; av[0] = 1.0; av[1] = small; av[2] = single ? (double)nextafterf((float)small, 0.0f) : nextafter(small, 0.0); av[3] = large; av[4] = single ? (double)nextafterf((float)large, INFINITY) : nextafter(large, INFINITY);
            rowcnd = th[a]; colcnd = th[b]; amaxd = av[g]; WK_COUNT(E_SWEEP);
        }
        T->laqgs(&S.A, Rb, Cb, rowcnd, colcnd, amaxd, &equed);
        char want_e;
        if (rowcnd >= 0.1 && amaxd >= small && amaxd <= large) want_e = colcnd >= 0.1 ? 'N' : 'C'; else want_e = colcnd >= 0.1 ? 'R' : 'B';
        if (equed != want_e) { wk_fail(r, "laqgs-rule", "equed='%c' but the threshold rule on (rowcnd=%g, colcnd=%g, amax=%g) gives '%c'", equed, rowcnd, colcnd, amaxd, want_e); goto done; }
        WK_COUNT(equed == 'N' ? E_N : equed == 'R' ? E_R : equed == 'C' ? E_C : E_B);
        sp_to_dense(&S, &A1);
        int rowequ = (equed == 'R' || equed == 'B'), colequ = (equed == 'C' || equed == 'B');
        for (int i = 0; i < m; i++) for (int j = 0; j < n; j++) if (DZ(&A0, i, j)) {
            for (int part = 0; part < (T->cplx ? 2 : 1); part++) {
                xr av = part ? cimagl(DM(&A0, i, j)) : creall(DM(&A0, i, j)), gv = part ? cimagl(DM(&A1, i, j)) : creall(DM(&A1, i, j)); int ok;
                if (T->id == TS || T->id == TC) { float a = (float)av, R = (float)T->rld(Rb, i), C = (float)T->rld(Cb, j), g = (float)gv, w1 = rowequ && colequ ? (a * R) * C : rowequ ? a * R : colequ ? a * C : a, w2 = rowequ && colequ ? a * (R * C) : w1, w3 = rowequ && colequ ? (a * C) * R : w1; ok = (g == w1 || g == w2 || g == w3 || (g != g && w1 != w1)); }
                else { double a = (double)av, R = (double)T->rld(Rb, i), C = (double)T->rld(Cb, j), g = (double)gv, w1 = rowequ && colequ ? (a * R) * C : rowequ ? a * R : colequ ? a * C : a, w2 = rowequ && colequ ? a * (R * C) : w1, w3 = rowequ && colequ ? (a * C) * R : w1; ok = (g == w1 || g == w2 || g == w3 || (g != g && w1 != w1)); }
                if (!ok && rowequ && colequ) {
                    /* F20: the routine forms C[j]*R[i] first; if that product overflows in working precision the entry becomes Inf/NaN although a*R*C is representable */
                    xr rcp = (T->id == TS || T->id == TC) ? (xr)((float)T->rld(Rb, i) * (float)T->rld(Cb, j)) : (xr)((double)T->rld(Rb, i) * (double)T->rld(Cb, j));
                    if (!isfinite((double)rcp)) { wk_fail(r, "laqgs-rc-overflow", "entry (%d,%d): R*C overflows in working precision (R=%Lg, C=%Lg), the scaled entry is %Lg", i, j, T->rld(Rb, i), T->rld(Cb, j), gv); goto done; }
                }
                if (!ok) { wk_fail(r, "laqgs-application", "entry (%d,%d) part %d: %Lg became %Lg, not the product with exactly the factors selected by equed='%c'", i, j, part, av, gv, equed); goto done; }
            }
        }
        r->outcome = fnv(0, &equed, 1);
        /* the drivers apply the same rule: xgssvx / xgsisx with Equil = YES on the original matrix must return the letter, the factors R and C and the
           scaled values that xgsequ + xlaqgs produce (bit for bit), whatever the factorization then makes of the matrix.  Square, structurally non-singular
           patterns of order <= 3, column storage, natural order, no right-hand side. */
        if (c->aux != 1 && m == n && n <= 3 && pat_struct_rank(n, n, c->pat) == n) {
            for (int ilu = 0; ilu < 2; ilu++) {
                xs s; xs_init(&s, T, n, c->pat, 0, 0); sp_destroy(&s.S); sp_from_dense(&s.S, T, &A0, 0); s.A_orig = A0; s.ilu = ilu;
                dmat B; memset(&B, 0, sizeof B); B.m = n; B.n = 0; xs_set_rhs(&s, &B, 0, 0);
                superlu_options_t opt; if (ilu) { ilu_set_default_options(&opt); opt.RowPerm = NOROWPERM; } else set_default_options(&opt);
                opt.Equil = YES; opt.ColPerm = NATURAL; opt.PrintStat = NO; opt.ConditionNumber = NO; opt.PivotGrowth = NO; opt.IterRefine = NOREFINE;
                memset(&s.Glu, 0, sizeof s.Glu);
                if (ref_numerically_singular(&A0)) WK_SET_FLAGS(WK_FLAG_SINGULAR);
                xs_call(&s, &opt); WK_COUNT(E_DRV); if (s.equed[0] != 'N') WK_COUNT(E_DRVS);
                const char *drv = ilu ? "gsisx" : "gssvx";
                if (s.info < 0) wk_fail(r, "driver-rejected", "x%s rejected a valid call: info=%ld", drv, s.info);
                else if (s.equed[0] != equed) wk_fail(r, "driver-equed", "x%s with Equil=YES returned equed='%c'; xgsequ + xlaqgs (rowcnd=%g colcnd=%g amax=%g) give '%c'", drv, s.equed[0], rowcnd, colcnd, amaxd, equed);
                else if (rowequ && memcmp(s.Rbuf, Rb, T->rsz * n)) wk_fail(r, "driver-R", "x%s returned row scale factors that differ from xgsequ's", drv);
                else if (colequ && memcmp(s.Cbuf, Cb, T->rsz * n)) wk_fail(r, "driver-C", "x%s returned column scale factors that differ from xgsequ's", drv);
                else if (s.S.nnz != S.nnz || memcmp(s.S.nzval, S.nzval, T->esz * S.nnz)) wk_fail(r, "driver-A-scaling", "x%s left A with values that differ from diag(R) A diag(C) as xlaqgs forms it (equed='%c')", drv, equed);
                xs_destroy(&s);
                if (r->status == 1) goto done;
            }
        }
    }
done:
    sp_destroy(&S);
}
static const int RM11[] = { 1, 2, 3, 2, 3, 1, 2 }, RN11[] = { 1, 2, 3, 1, 2, 2, 3 };
static long r11_off[8]; static long r11_total(void) { long s = 0; for (int k = 0; k < 7; k++) { r11_off[k] = s; s += 1L << (RM11[k] * RN11[k]); } r11_off[7] = s; return s; }
static void s11(const int *d, vcase *c) { r11_total(); int k = 0; while (d[0] >= r11_off[k + 1]) k++; c->m = RM11[k]; c->n = RN11[k]; c->pat = (uint64_t)(d[0] - r11_off[k]); c->vals = d[1]; c->k = d[2]; c->type = d[3]; }
static void s11_4(const int *d, vcase *c) { c->m = c->n = 4; c->pat = (uint64_t)d[0]; c->vals = (int[]){ 2, 3, 8, 9 }[d[1]]; c->k = 0; c->type = d[2]; }
static void s11L(const int *d, vcase *c) { int e[4] = { 2 + d[0], d[1], 0, d[3] }; s11(e, c); c->k = d[2]; c->aux = 1; }   /* all 2x2, 3x3 (first 200) patterns */
#define FAM11L { "xlaqgs threshold sweep: patterns of 2x2 and 3x3 (first 240) x schemes{0,1,2,3} x (ROWCND, COLCND in {below .1, .1, above .1, 0, 1}) x AMAX in {1, SMALL, below SMALL, LARGE, above LARGE} x type4", 4, { 256, 4, 125, 4 }, s11L }
static const family F11Q[] = { { "all patterns of 1x1,2x2,3x3,2x1,3x2,1x2,2x3 x 12 magnitude schemes x extreme-entry position 0..8 x type4", 4, { 2 + 16 + 512 + 4 + 64 + 4 + 64, 12, 9, 4 }, s11 }, FAM11L };
static const family F11T[] = { { "all patterns of 1x1,2x2,3x3,2x1,3x2,1x2,2x3 x 12 magnitude schemes x extreme-entry position 0..8 x type4", 4, { 2 + 16 + 512 + 4 + 64 + 4 + 64, 12, 9, 4 }, s11 },
                               { "ALL(4) x 4 magnitude schemes x type4", 3, { N_ALL4, 4, 4 }, s11_4 }, FAM11L };
static long sz_11(int tier) { return tier ? fam_total(F11T, 3) : fam_total(F11Q, 2); }
static void dec_11(int tier, long idx, vcase *c) { if (tier) fam_decode(F11T, 3, idx, c); else fam_decode(F11Q, 2, idx, c); }
static void desc_11(int tier, char *b, size_t cap) { if (tier) fam_describe(F11T, 3, b, cap); else fam_describe(F11Q, 2, b, cap); }
static const char RULE11[] = "every pattern of the listed shapes x magnitude-assignment scheme (9-level alphabet from the smallest subnormal to near overflow, one extreme entry at every position) x type through xgsequ and xlaqgs; non-trivial = at least one stored entry";

const vf_check vf_checks[] = {
    { "C10", sz_10, dec_10, run_C10, CNT10, RAT0, RULE10, desc_10 },
    { "C11", sz_11, dec_11, run_C11, CNT11, RAT11, RULE11, desc_11 },
};
const int vf_nchecks = 2;
int main(int argc, char **argv) { return wk_main(argc, argv); }
