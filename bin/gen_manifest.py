#!/usr/bin/env python3
"""Regenerates /verif/MANIFEST.json from bin/checks_cfg.py (single source of truth)."""
import json, os, sys
ROOT = os.path.dirname(os.path.dirname(os.path.abspath(__file__)))
sys.path.insert(0, os.path.join(ROOT, 'bin'))
from checks_cfg import CHECKS, META, NOT_APPLICABLE

props = [json.loads(l) for l in open(os.path.join(ROOT, 'properties.jsonl'))]
checks = []
for p in props:
    pid = p['id']
    if pid not in CHECKS:
        continue
    m = META[pid]
    checks.append(dict(
        property_id=pid,
        quick_cmd='bin/check %s --tier quick' % pid,
        thorough_cmd='bin/check %s --tier thorough' % pid,
        evidence_file='/verif/evidence/%s.json' % pid,
        replay_cmd_template='bin/check %s --replay {path}' % pid,
        engine=m['engine'],
        level_claimed=dict(category=CHECKS[pid]['level'], text=m['text'], design_ref=m['design_ref']),
        level_note=m['note'],
        technique=m['technique'],
    ))
na = [dict(property_id=p['id'], reason=NOT_APPLICABLE.get(p['id'], 'check not built yet in this session; no claim is made')) for p in props if p['id'] not in CHECKS]
man = dict(
    version=1,
    setup_cmd='make -C /verif -j16 all',
    hooks=dict(guard='SLU_VERIF',
               enable='private build only: /verif/Makefile compiles /repo/SRC, /repo/CBLAS and /repo/FORTRAN/c_fortran_*.c with -DSLU_VERIF -include /verif/harness/vf_hooks.h (overrides the USER_MALLOC/USER_FREE/USER_ABORT macros that SRC/slu_util.h guards with #ifndef); no source file of /repo is modified',
               baseline_off_cmd='cmake -G Ninja -B /repo/_build -S /repo -DCMAKE_BUILD_TYPE=RelWithDebInfo -DCMAKE_C_FLAGS=-Wno-error && cmake --build /repo/_build && ctest --test-dir /repo/_build -j8 --timeout 900',
               source_commits=[], add_only=True),
    engines=[
        dict(name='E1 small-scope enumerator', path='harness/h_e1.c harness/h_e1x.c harness/h_k.c harness/h_k2.c harness/h_k3.c harness/h_k4.c harness/h_rd.c harness/h_ilu.c (+ wk.c ref.c oracle.c e1common.c xs.c vf_rt.c bind.c)', serves_properties=[c for c in CHECKS if META[c]['engine'].startswith('E1')], kind_free_text='exhaustive enumeration of inputs x configurations on the real code with a dense extended-precision reference model'),
        dict(name='E2 environment/fault enumerator', path='harness/h_e2.c', serves_properties=[c for c in CHECKS if META[c]['engine'].startswith('E2')], kind_free_text='every workspace length / alignment / fill estimate / allocation-failure position'),
        dict(name='E3 history explorer', path='harness/h_e3.c harness/h_life.c harness/h_fb.c', serves_properties=[c for c in CHECKS if META[c]['engine'].startswith('E3')], kind_free_text='breadth-first search over operation histories of the real API objects, state = canonical hash'),
        dict(name='E4 schedule explorer', path='harness/h_thr.c harness/mon_rt.c harness/mon.h', serves_properties=[c for c in CHECKS if META[c]['engine'].startswith('E4')], kind_free_text='preemption-bounded exhaustive thread interleavings with an access monitor, plus a free-running TSan pass'),
    ],
    checks=checks,
    not_applicable=na,
    notes='All checks rebuild the private library variants from /repo\'s working tree (incremental make) before running. known_findings.json lists genuine defects of the pinned tree that are reported as KNOWN-FINDING lines. See DESIGN.md.',
)
json.dump(man, open(os.path.join(ROOT, 'MANIFEST.json'), 'w'), indent=1)
print('wrote MANIFEST.json with', len(checks), 'checks,', len(na), 'not claimed')
