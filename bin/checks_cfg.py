"""Registry: which harness runs decide which property (read by bin/check)."""

def _e1(check, binary='h_e1'):
    return [dict(binary=binary, check=check, variant='ref')]

def _e1v(check, binary='h_e1', variants=('ref', 'obl', 'i64', 'asan')):
    return [dict(binary=binary, check=check, variant=v) for v in variants]

CHECKS = {
    'C01': dict(level='exploration', runs=_e1v('C01'), percase=5, deadline=dict(quick=150, thorough=1500)),
    'C02': dict(level='exploration', runs=_e1v('C02'), percase=5, deadline=dict(quick=150, thorough=1500)),
    'C03': dict(level='exploration', runs=_e1v('C03'), percase=5, deadline=dict(quick=150, thorough=1500)),
    'C04': dict(level='exploration', runs=_e1('C04') + _e1('C04x', 'h_e1x'), percase=5, deadline=dict(quick=200, thorough=1500)),
    'C05': dict(level='exploration', runs=_e1v('C05', 'h_e1x', ('ref', 'obl', 'asan')), percase=5, deadline=dict(quick=150, thorough=1500)),
    'C10': dict(level='exploration', runs=_e1v('C10', 'h_k', ('ref', 'i64', 'asan')), percase=10, deadline=dict(quick=150, thorough=1500)),
    'C11': dict(level='exploration', runs=_e1v('C11', 'h_k', ('ref', 'asan')), percase=5, deadline=dict(quick=150, thorough=1500)),
    'C14': dict(level='exploration', runs=_e1v('C14', 'h_k2', ('ref', 'obl', 'asan')), percase=5, deadline=dict(quick=150, thorough=1500)),
    'C17': dict(level='exploration', runs=_e1v('C17', 'h_k3', ('ref', 'asan')), percase=5, deadline=dict(quick=150, thorough=1500)),
    'C18': dict(level='exploration', runs=_e1v('C18', 'h_k4', ('ref', 'asan')), percase=5, deadline=dict(quick=60, thorough=300)),
    'C16': dict(level='exploration', runs=_e1v('C16', 'h_rd', ('ref', 'asan')), percase=5, deadline=dict(quick=100, thorough=600)),
    'C15': dict(level='exploration', runs=_e1v('C15', 'h_ilu', ('ref', 'obl')), percase=5, deadline=dict(quick=150, thorough=1500)),
    'C12': dict(level='exploration', runs=_e1v('C12', 'h_e1x', ('ref', 'obl')), percase=5, deadline=dict(quick=150, thorough=1500)),
    'C13': dict(level='exploration', runs=_e1v('C13', 'h_e1x', ('ref', 'obl')), percase=5, deadline=dict(quick=150, thorough=1500)),
    'C06': dict(level='model_checking', runs=_e1v('C06', 'h_e3', ('ref', 'obl')), percase=20, deadline=dict(quick=150, thorough=1500),
                mc_cov=lambda cn: dict(states=cn.get('C06/ref:states', 0) + cn.get('C06/obl:states', 0), transitions=cn.get('C06/ref:transitions', 0) + cn.get('C06/obl:transitions', 0), traces_validated_against_impl=cn.get('C06/ref:transitions', 0) + cn.get('C06/obl:transitions', 0),
                                       explanation='states = canonical hashes of the real session objects summed over configurations; every transition is one real xgssvx call judged by the oracles, so every explored trace is executed on the implementation')),
    'C19': dict(level='model_checking', runs=_e1v('C19', 'h_life', ('ref', 'asan')), percase=10, deadline=dict(quick=200, thorough=1800),
                mc_cov=lambda cn: dict(states=cn.get('C19/ref:states', 0) + cn.get('C19/asan:states', 0), transitions=cn.get('C19/ref:transitions', 0) + cn.get('C19/asan:transitions', 0),
                                       traces_validated_against_impl=cn.get('C19/ref:lifecycles', 0) + cn.get('C19/asan:lifecycles', 0),
                                       explanation='every word of the lifecycle automaton is executed on the real library; transitions = library calls made, traces = complete lifecycles judged at their accepting state')),
    'C20': dict(level='model_checking', runs=_e1v('C20', 'h_fb', ('ref', 'asan')), percase=60, deadline=dict(quick=150, thorough=1500),
                mc_cov=lambda cn: dict(states=cn.get('C20/ref:states', 0) + cn.get('C20/asan:states', 0), transitions=cn.get('C20/ref:transitions', 0) + cn.get('C20/asan:transitions', 0),
                                       traces_validated_against_impl=cn.get('C20/ref:words', 0) + cn.get('C20/asan:words', 0),
                                       explanation='states = abstract typestates {none, h0, h1, both live} per configuration; every word (trace) is executed call by call on the real bridge')),
    'C09': dict(level='model_checking', runs=[dict(binary='h_thr', check='C09sched', variant='mon'), dict(binary='h_thr', check='C09seq', variant='ref'), dict(binary='h_thr', check='C09tsan', variant='tsan')],
                percase=dict(quick=120, thorough=2400), deadline=dict(quick=200, thorough=3000),
                mc_cov=lambda cn: dict(states=cn.get('C09sched/mon:scheduling_points', 0), transitions=cn.get('C09sched/mon:scheduling_points', 0), traces_validated_against_impl=cn.get('C09sched/mon:schedules', 0) + cn.get('C09seq/ref:sequences', 0),
                                       explanation='schedules = complete interleavings executed on the real code under the cooperative scheduler (iterative preemption bounding, depth-first with prefix replay); states/transitions = scheduling points visited over all schedules; sequences = sequential call histories of part 3')),
    'C07': dict(level='fault_enumeration', runs=_e1('C07', 'h_e2'), percase=5, deadline=dict(quick=150, thorough=1500)),
    'C08': dict(level='fault_enumeration', runs=_e1('C08', 'h_e2'), percase=5, deadline=dict(quick=150, thorough=1500)),
}

_E1_NOTE = ('Bounded: orders n<=8 (all patterns only for n<=4), the listed value schemes, orderings, thresholds, tuning tuples; trusted base = the harness, '
            'its extended-precision dense reference model and the componentwise bounds of DESIGN.md section 4; the library is compiled from /repo with the allocation/abort macros redirected.')
META = {
    'C01': dict(engine='E1 small-scope enumerator', design_ref='5/C01', technique='bounded exhaustive enumeration of inputs x configurations on the real code (small-scope model checking) with reference-model oracle',
                text='Every case of the stated finite product (all sparsity patterns up to order 4, deviation-1 neighbourhoods of structured 6x6/8x8 patterns, 7-8 value schemes, 5 orderings, 3-4 thresholds, symmetric mode, both storages, 9 tuning tuples, 4 types, rhs shapes) is executed through xgssv and judged by the componentwise residual bound built from the returned factors.',
                note=_E1_NOTE),
    'C02': dict(engine='E1 small-scope enumerator', design_ref='5/C02', technique='bounded exhaustive enumeration of inputs x configurations on the real code with reference-model oracle',
                text='Same product as C01; oracle: permutations are bijections, entrywise |PrAPc-LU| <= 16 n eps |L||U|, multiplier bound 1/u, pivot is the column maximum unless the diagonal passes the threshold (reconstructed from the returned factors), MY_PERMC with all 4! orders.',
                note=_E1_NOTE),
    'C03': dict(engine='E1 small-scope enumerator', design_ref='5/C03', technique='bounded exhaustive enumeration of inputs x configurations on the real code with exact structural oracle',
                text='Same product as C01; oracle: exact well-formedness of the supernodal L / compressed-column U (partition, shared row lists, ranges, monotone pointers, implied lengths, stored counts).',
                note=_E1_NOTE),
    'C04': dict(engine='E1 small-scope enumerator', design_ref='5/C04', technique='bounded exhaustive enumeration of all patterns up to order 4 (singular ones included) with exact-arithmetic reference elimination',
                text='All 66066 patterns of order <=4 x exact-arithmetic value schemes x orderings x thresholds (0 included) x tunings x types; oracle: structural rank<n => 1<=info<=n, leading-block identity, stored candidates of the reported column exactly zero, rhs untouched, and agreement with exact elimination along the library\'s own pivot sequence whenever floating point was provably exact.',
                note=_E1_NOTE + ' Known findings F8 (memory error in xgstrf on singular input) and F9 (no structural-rank test) are reported as KNOWN-FINDING.'),
}
NOT_APPLICABLE = {}

_X_NOTE = _E1_NOTE + ' Expert driver called with Fact=DOFACT; histories over other Fact modes are C06.'
META.update({
    'C05': dict(engine='E1 small-scope enumerator', design_ref='5/C05', technique='bounded exhaustive enumeration of inputs x Trans x Equil x refinement x storage x configurations on the real xgssvx with reference-model oracle',
                text='Every case of the product (all structurally nonsingular patterns of order <=4, deviation-1 neighbourhoods of 6x6 bases, badly scaled value schemes, Trans N/T/C, Equil, IterRefine, NC/NR, orderings, tunings, 4 types) is judged: equed letter, bit-exact scaling of A and B by exactly the named factors, padding untouched, and the componentwise residual bound of the scaled system built from the returned factors.',
                note=_X_NOTE + ' Known findings F10 (NR+CONJ on complex data solves the transpose) and F11 (a refinement step can degrade X for matrices ill-conditioned in working precision) are reported as KNOWN-FINDING.'),
    'C12': dict(engine='E1 small-scope enumerator', design_ref='5/C12', technique='bounded exhaustive enumeration with explicit-inverse reference (extended precision) for the condition number and recomputed pivot growth',
                text='Product over patterns x value schemes incl. nearly singular and graded ones x Trans x Equil x storage x types; oracle: rcond >= (1-theta)/kappa with kappa from the explicit inverse of the returned factors in the norm the driver selects, rcond <= 1, info=n+1 iff rcond<eps, recip_pivot_growth equal to min_j max|A_j|/max|U_j| recomputed from the stored factors, also over the leading columns of singular factorizations of every pattern of order <=4.',
                note=_X_NOTE + ' F8/F13 (degenerate structure after a singular return) are reported as KNOWN-FINDING; F12 (dirty work vector in sp_ctrsv/sp_ztrsv) was repaired by a fix: commit.'),
    'C13': dict(engine='E1 small-scope enumerator', design_ref='5/C13', technique='bounded exhaustive enumeration with extended-precision recomputation of the componentwise backward error',
                text='Product over patterns x value schemes x rhs shapes (generic, zero column, zero components, A e_k) x Trans x Equil x storage x types; oracle: |BERR - omega| <= 2(n+2)eps with omega recomputed in extended precision for the system actually factored (safe1/safe2 guard honoured), FERR finite >= 0, RefineSteps <= 5; refinement off: FERR=BERR=1 exactly and X equals the plain solve with the returned factors.',
                note=_X_NOTE),
})
META['C04']['text'] += ' The expert driver is run over every pattern of order <=4 as well: a singular return leaves B bit-identical and X unwritten.'

_E2_NOTE = ('Bounded: 6x6 and 8x8 base patterns and their deviation-1 neighbourhoods, the listed tunings/fill estimates/lengths; the workspace sits right-aligned against a PROT_NONE page with canary bytes on both sides; '
            'library blocks carry red zones; the range vacated by user_bcopy is poisoned. Leaks on failure exits are judged by C19, not here.')
META.update({
    'C07': dict(engine='E2 environment/fault enumerator', design_ref='5/C07', technique='exhaustive enumeration of storage scenarios (fill estimates, workspace lengths, alignments, prefill patterns) with bitwise differential oracle',
                text='For every base case every storage scenario (library allocation with fill estimate 1,2,3,5,30; caller workspace of L_min+{0..64}, 2 L_min, 1 MiB at both alignments and three prefill patterns, with tight fill estimates so that every array kind expands in flight) is executed through xgssvx/xgsisx and its permutations, etree, L, U and solution are compared bit-for-bit with the library-allocation fill-30 run; stat->expansions is checked against the allocation ledger, nnz and mem_usage against the returned factors.',
                note=_E2_NOTE),
    'C08': dict(engine='E2 environment/fault enumerator', design_ref='5/C08', technique='exhaustive enumeration of workspace lengths x alignments, size queries and k-th allocation failures on the real drivers with guard pages and canaries',
                text='Every workspace length of the sweep (each a distinct exhaustion point) at both alignments, every (Fact, Equil, fill) size query and every k-th failing growth request is executed on xgssvx/xgsisx: no crash/hang/abort, canaries and guard page intact, no free of a workspace pointer, allocator invariants hold, and the outcome is either info>n or factors bit-identical to library allocation; a size query changes nothing but info/mem_usage.',
                note=_E2_NOTE + ' Known finding F5 (size query through the drivers pre-processes A/perm_c/etree first) is reported as KNOWN-FINDING; F14-F16, F18 were repaired by fix: commits.'),
})

META['C06'] = dict(engine='E3 history explorer', design_ref='5/C06', technique='explicit-state breadth-first search over operation histories of the real xgssvx session (state = canonical hash of the carried objects), to a fixpoint per configuration',
    text='For every configuration (pattern, type, tuning, ordering, Equil, refinement, storage model, threshold) the reachable state graph over the 18-event alphabet {DOFACT, SamePattern, SamePattern_SameRowPerm} x {base values, tiny perturbation, unrelated values, reused pivot made exactly zero, rows rescaled} + FACTORED x {N,T,C} is explored to a fixpoint; every transition is a real driver call judged by the structure, LU-identity, multiplier-bound, scaling and solution oracles of C02/C03/C05 with respect to that call\'s matrix; FACTORED must leave the state hash unchanged; DOFACT(v) after any history must give bit-identical factors to DOFACT(v) from the initial state.',
    note=_E1_NOTE + ' State canonicalisation: addresses and timings excluded, everything else that a later call can read is hashed, so merged states have the same futures. Known findings F10/F11 apply as in C05.')

META['C10'] = dict(engine='E1 small-scope enumerator', design_ref='5/C10', technique='bounded exhaustive enumeration of sparsity patterns x ordering methods with a definition-level reference elimination tree',
    text='All patterns of order <=4, all patterns of nine rectangular shapes, deviation-1 neighbourhoods of 6x6/8x8 bases, large structured patterns (n=101..137 with dense rows/columns, empty rows/columns, columns living only in dense rows, so that the dense-row/column branches of COLAMD and MMD are inside the space), MY_PERMC with all 4! orders: perm_c is a bijection independent of the values; the permuted view lists exactly A\'s columns; the returned etree equals the column elimination tree of A*Pc computed from its definition; parents exceed children; subtrees are consecutive unless SymmetricMode; the final ordering is a postorder relabelling of the caller\'s tree; Fact!=DOFACT leaves perm_c/etree untouched.',
    note='Bounded by the listed pattern families; METIS orderings are not built here. Runs on 32- and 64-bit index builds and under ASan/UBSan.')
META['C11'] = dict(engine='E1 small-scope enumerator', design_ref='5/C11', technique='bounded exhaustive enumeration of patterns x magnitude alphabets (subnormal .. near overflow) with definition-level oracle',
    text='All patterns of seven small shapes x 12 magnitude-assignment schemes over a 9-level alphabet (smallest subnormal, sfmin/2, sfmin, tiny, 1, 3, huge, 1/(4 sfmin), near overflow) with one extreme entry at every position x 4 types: info names the first all-zero row/column; R, C positive, finite, in the safe range; R_i*max|a_i.| = 1 and C_j*max|r_i a_ij| = 1 to 4 eps unless clamped; rowcnd/colcnd/amax equal their definitions; xlaqgs follows the threshold rule and multiplies every stored entry by exactly the selected factors (bitwise, any association order).',
    note='Complex magnitudes are |re|+|im| as in the library. Known findings F19 (underflow makes a non-zero column look empty) and F20 (R*C overflow in xlaqgs) are reported as KNOWN-FINDING.')

META['C14'] = dict(engine='E1 small-scope enumerator', design_ref='5/C14', technique='bounded exhaustive enumeration of factor structures x flag spellings x alpha/beta with dense reference operations',
    text='sp_xtrsv over all 96 combinations of uplo{L,U,l,u} x trans{N,T,C,n,t,c} x diag{U,N,u,n} on factors with singleton, multi-column and relaxed supernodes; xgstrs over Trans x nrhs{0..3} x ldb{n,n+1,n+3}; sp_xgemv / sp_xgemm over six trans spellings x alpha,beta in {0,1,-1,2.5,i} on square and rectangular A with y pre-filled with NaN when beta=0: componentwise residual / product bounds against the dense stored operand, info=0 for every documented spelling, only the output is written, padding untouched, every rhs column judged against its own b.',
    note='(uplo=L, diag=N) has no defined operand (the diagonal slots of the supernodal block hold U) and is skipped. Runs with bundled kernels, with vendor BLAS (the tested configuration) and under ASan. Known finding F21 (diag flag ignored for unit-upper) is reported as KNOWN-FINDING; F4 and F12 were repaired by fix: commits.')

META['C17'] = dict(engine='E1 small-scope enumerator', design_ref='5/C17', technique='bounded exhaustive enumeration of patterns x magnitude schemes with brute-force optimum over all n! matchings',
    text='All patterns of order <=4 and deviation-1 neighbourhoods of 5x5/6x6 bases x value schemes with ties, small integers, wide magnitude spreads and zero diagonals x 4 types through xldperm(job=5): structural rank < n iff non-zero return; perm is a bijection onto non-zeros; the sum of log|diagonal| equals the brute-force maximum over all perfect matchings; with r=exp(u), c=exp(v) matched entries scale to 1 and all others to <= 1; colptr/rowind/nzval bit-identical afterwards.',
    note='Complex magnitudes are |re|+|im| (what zldperm hands to MC64). Known finding F22 (Q/Q2 overlap in mc64wd_ on ties) is keyed to the eight failing inputs and reported as KNOWN-FINDING.')

META['C18'] = dict(engine='E1 small-scope enumerator', design_ref='5/C18', technique='exhaustive enumeration of the (routine, single-argument corruption) table on real calls with bitwise snapshot oracle',
    text='For xgssv, xgssvx, xgsisx, xgstrs, xgsrfs, xgscon, xgsequ, sp_xtrsv every documented single-argument corruption (non-square / negative dimension, each wrong Stype/Dtype/Mtype, lda<n, ncol<0, option values above and below their enumeration, lwork<-1, bad equed letter or non-positive R/C with pre-computed factors, X/B column mismatch, bad norm/flag letters) is applied to 3 base matrices x 4 types x {fresh, pre-factored} x {NC, NR}: info = -(position), A, B, X, permutations, etree, R, C, L, U, ferr/berr bit-identical to their snapshot, allocation ledger unchanged.',
    note='The table is the space. equed is excluded from the snapshot (a fresh call resets it before validating, and it is an output). Runs also under ASan/UBSan. F23 (wrong position for an illegal B) was repaired by a fix: commit.')

META['C16'] = dict(engine='E1 small-scope enumerator', design_ref='5/C16', technique='bounded exhaustive enumeration of matrices x file encodings produced by a reference writer, parsed by the real readers',
    text='Matrices (all patterns of order <=3, deviation-1 neighbourhoods of 5x5 bases, values needing full precision) x encodings: Harwell-Boeing and Rutherford-Boeing with four integer formats, six value formats (E, D exponent, 1P scale, F editing, 17 digits), with/without right-hand-side block, general and symmetric storage with all/some/no diagonal entries stored; Matrix Market general/symmetric with comment lines and every entry order (all permutations for <=4 entries); triplet files with and without header, 1- and 0-based; real and complex, single and double. Dimensions, nnz, pattern and values (strtod of the printed field) must match; red zones / ASan guard the arrays; exactly the three result arrays stay allocated.',
    note='kP with F editing is left out (the reader documents that it skips the scale factor). 0-based coordinate files are in the premise only when the reader\'s own detection rule (a zero index in the first entry / anywhere for the header-less reader) applies. F6, F24, F25 were repaired by fix: commits.')

META['C15'] = dict(engine='E1 small-scope enumerator', design_ref='5/C15', technique='bounded exhaustive enumeration of the ILU option product on small patterns with dense reference oracle',
    text='Full Cartesian product of drop rules x drop tolerances x fill factors x norms x MILU variants x row-permutation option x Trans x orderings x tunings x types on every structurally nonsingular pattern of order <=3 and deviation-1 neighbourhoods of 6x6 bases (zero diagonals and exactly cancelling values included) through xgsisx: returns, 0<=info<=n (n+1 only with ConditionNumber), permutations are bijections, U diagonal finite and non-zero, structure well-formed (repeated U rows allowed), A returned with its original row indices and scaled exactly as equed says, X equals the solve defined by the returned factors, and with dropping disabled and no pivot replaced the complete-LU identity holds.',
    note=_E1_NOTE + ' The workspace / allocation-failure paths of the ILU driver are covered by C07/C08.')

META['C19'] = dict(engine='E3 history explorer', design_ref='5/C19', technique='exhaustive enumeration of all words of the documented lifecycle automaton up to a depth, executed on the real library with an allocation ledger, red zones and ASan/UBSan',
    text='Pipeline words (create, get_perm_c x4, sp_preorder, xgstrf under library allocation / ample workspace / too-small workspace / size query / single and persistent k-th growth failures, up to three of {xgstrs N, xgstrs T, xgscon, xgsrfs, pivot growth + space query}, optional SamePattern_SameRowPerm refactorization, destroy) and driver words (all three-call sequences over xgssv, xgssvx in all Fact modes / storage modes / query / faults, xgsisx likewise) on six matrices incl. an exactly singular one, fill estimates 1..8 (arrays ending exactly at capacity are counted), 4 types: no sanitizer report, no free of a foreign or freed pointer, red zones intact, and the ledger is empty once the caller has destroyed what it was handed.',
    note='Uninitialised-value dependence is approximated by the 0xA5 / 0xDD fill plans and bitwise differential checks of C06/C07/C09 (MSan build not used). Known finding F3 (xgstrf/xgsitrf leak on a mid-factorization growth failure) and F8 are reported as KNOWN-FINDING; F1, F2, F7, F18, F26 were repaired by fix: commits.')

META['C20'] = dict(engine='E3 history explorer', design_ref='5/C20', technique='exhaustive enumeration of all valid operation words of the handle protocol up to a depth, executed on the real Fortran-callable entry point',
    text='For every configuration all words over {factor(h,m), solve(h,nrhs in {1,2},ldb in {n,n+2}), free(h)} on two handles and two matrices up to depth 6 (quick) / 7 (thorough) that respect the protocol and end with everything freed are executed on c_fortran_xgssv_: the caller\'s 1-based arrays are bit-identical after factor; every solve meets the C01 residual bound for its handle\'s matrix and agrees with xgssv on the same data (bitwise equality is recorded); padding rows untouched; results do not depend on what the other handle did; the allocation ledger is empty after the last free.',
    note='The bridge sources are compiled by the private build (enable_fortran is OFF in the tested configuration). d and z in quick, all four types in thorough; ref and ASan builds.')

META['C09'] = dict(engine='E4 schedule explorer', design_ref='5/C09', technique='stateless model checking of the real code: exhaustive preemption-bounded thread interleavings under a cooperative scheduler with a per-access monitor, plus exhaustive sequential call orders and a free-running ThreadSanitizer pass',
    text='(1) mon build (library compiled with -fsanitize=thread, the TSan runtime replaced by an access monitor): all 45 unordered pairs of 9 thread bodies (dgssvx with equilibration/condition/refinement, zgssvx CONJ, sgssv, cgssv on row storage, hand-made dgstrf+dgstrs+dgscon, orderings + sp_preorder, dgsisx with MC64, the Fortran bridge, sgssvx TRANS on row storage), self pairs included, and 6 triples; every schedule with <= 1 preemption (<= 2 for self pairs in quick, for all pairs in thorough) is executed; scheduling points at every allocation call and at every instrumented access to memory the running thread does not own (writable globals/statics, other threads\' blocks); oracle per schedule: no location touched by two threads with a write, every thread\'s outputs bit-identical to its solo run. (2) all sequences of <= 3 (quick) / <= 4 (thorough) calls in one thread, each call with its own tuning parameters, on 3 heap fill patterns: outputs bit-identical to the same call executed first in a fresh process. (3) the same bodies free-running on 4 threads under the real TSan runtime.',
    note='<= 3 threads, preemption bound 2, sequential consistency between scheduling points (no weak-memory effects); libc calls made by the library (memset/memcpy/printf) are not instrumented. sp_ienv is process-global by design, so concurrent bodies share one tuning tuple.')
