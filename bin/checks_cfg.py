"""Registry: which harness runs decide which property (read by bin/check)."""

def _e1(check, binary='h_e1'):
    return [dict(binary=binary, check=check, variant='ref')]

CHECKS = {
    'C01': dict(level='exploration', runs=_e1('C01'), percase=5, deadline=dict(quick=150, thorough=1500)),
    'C02': dict(level='exploration', runs=_e1('C02'), percase=5, deadline=dict(quick=150, thorough=1500)),
    'C03': dict(level='exploration', runs=_e1('C03'), percase=5, deadline=dict(quick=150, thorough=1500)),
    'C04': dict(level='exploration', runs=_e1('C04'), percase=5, deadline=dict(quick=150, thorough=1500)),
}

_E1_NOTE = ('Bounded: orders n<=8 (all patterns only for n<=4), the listed value schemes, orderings, thresholds, tuning tuples; trusted base = the harness, '
            'its extended-precision dense reference model and the componentwise bounds of DESIGN.md section 4; the library is compiled from /repo with the allocation/abort macros redirected.')
META = {
    'C01': dict(engine='E1 small-scope enumerator', design_ref='5/C01', technique='bounded exhaustive enumeration of inputs x configurations on the real code (small-scope model checking) with reference-model oracle',
                text='Every case of the stated finite product (all sparsity patterns up to order 4, deviation-1 neighbourhoods of structured 6x6/8x8 patterns, 7-8 value schemes, 5 orderings, 3-4 thresholds, symmetric mode, both storages, 9 tuning tuples, 4 types, rhs shapes) is executed through xgssv and judged by the componentwise residual bound built from the returned factors.',
                note=_E1_NOTE),
    'C02': dict(engine='E1 small-scope enumerator', design_ref='5/C02', technique='bounded exhaustive enumeration of inputs x configurations on the real code with reference-model oracle',
                text='Same product as C01; oracle: permutations are bijections, entrywise |PrAPc-LU| <= 16 n eps |L||U|, multiplier bound 1/u, pivot is the column maximum unless the diagonal passes the threshold (reconstructed from the returned factors), MY_PERMC with all 4! orders.',
                note=_E1_NOTE),
    'C03': dict(engine='E1 small-scope enumerator', design_ref='5/C03', technique='bounded exhaustive enumeration of inputs x configurations on the real code with exact structural oracle',
                text='Same product as C01; oracle: exact well-formedness of the supernodal L / compressed-column U (partition, shared row lists, ranges, monotone pointers, implied lengths, stored counts).',
                note=_E1_NOTE),
    'C04': dict(engine='E1 small-scope enumerator', design_ref='5/C04', technique='bounded exhaustive enumeration of all patterns up to order 4 (singular ones included) with exact-arithmetic reference elimination',
                text='All 66066 patterns of order <=4 x exact-arithmetic value schemes x orderings x thresholds (0 included) x tunings x types; oracle: structural rank<n => 1<=info<=n, leading-block identity, stored candidates of the reported column exactly zero, rhs untouched, and agreement with exact elimination along the library\'s own pivot sequence whenever floating point was provably exact.',
                note=_E1_NOTE + ' Known findings F8 (memory error in xgstrf on singular input) and F9 (no structural-rank test) are reported as KNOWN-FINDING.'),
}
NOT_APPLICABLE = {}
