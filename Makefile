# Private verification builds of the SuperLU tree in $(SLU_SRC) (default /repo).
# Nothing is written into /repo.  One library archive per VARIANT, harness
# binaries per VARIANT; -MMD dependency files make rebuilds incremental, so a
# check can always call `make` first and pick up any edit under /repo.
#
#   make all                 build every variant's library + every harness
#   make VARIANT=ref bins    build one variant
SLU_SRC ?= /repo
VARIANT ?= ref
B       := build/$(VARIANT)
H       := harness

GCC   ?= gcc
CLANG ?= clang

COMMON  := -std=gnu99 -DNDEBUG -w -DSLU_VERIF -include $(CURDIR)/$(H)/vf_hooks.h \
           -I$(CURDIR)/build/gen -I$(SLU_SRC)/SRC -I$(SLU_SRC)/CBLAS -g -fno-omit-frame-pointer
LIBS    := -lm -lpthread -ldl
WITH_CBLAS := 1

ifeq ($(VARIANT),ref)
  CC := $(GCC)
  VFLAGS := -O2
else ifeq ($(VARIANT),obl)
  CC := $(GCC)
  VFLAGS := -O2 -DUSE_VENDOR_BLAS
  LIBS += -lopenblas
  WITH_CBLAS := 0
else ifeq ($(VARIANT),i64)
  CC := $(GCC)
  VFLAGS := -O2 -DXSDK_INDEX_SIZE=64
else ifeq ($(VARIANT),asan)
  CC := $(CLANG)
  VFLAGS := -O1 -fsanitize=address,undefined -fno-sanitize-recover=undefined -fno-sanitize=float-divide-by-zero -DVF_ASAN
else ifeq ($(VARIANT),asanv)
  CC := $(CLANG)
  VFLAGS := -O1 -fsanitize=address,undefined -fno-sanitize-recover=undefined -DUSE_VENDOR_BLAS -DVF_ASAN
  LIBS += -lopenblas
  WITH_CBLAS := 0
else ifeq ($(VARIANT),tsan)
  CC := $(CLANG)
  VFLAGS := -O1 -fsanitize=thread -DVF_TSAN
else ifeq ($(VARIANT),mon)
  CC := $(CLANG)
  VFLAGS := -O1 -fsanitize=thread -DVF_MON
else ifeq ($(VARIANT),cov)
  CC := $(GCC)
  VFLAGS := -O1 --coverage -DVF_COV
else
  $(error unknown VARIANT $(VARIANT))
endif

# ---- library objects ------------------------------------------------------
SRC_C   := $(wildcard $(SLU_SRC)/SRC/*.c)
CBLAS_C := $(wildcard $(SLU_SRC)/CBLAS/*.c)
FORT_C  := $(wildcard $(SLU_SRC)/FORTRAN/c_fortran_*.c)

SRC_O   := $(patsubst $(SLU_SRC)/SRC/%.c,$(B)/lib/SRC_%.o,$(SRC_C))
FORT_O  := $(patsubst $(SLU_SRC)/FORTRAN/%.c,$(B)/lib/FORTRAN_%.o,$(FORT_C))
ifeq ($(WITH_CBLAS),1)
CBLAS_O := $(patsubst $(SLU_SRC)/CBLAS/%.c,$(B)/lib/CBLAS_%.o,$(CBLAS_C))
else
CBLAS_O :=
endif
EX_O    := $(B)/lib/EXAMPLE_dreadtriple_noheader.o
LIB_O   := $(SRC_O) $(CBLAS_O) $(FORT_O) $(EX_O)
LIBA    := $(B)/libslu.a

# ---- harness --------------------------------------------------------------
HCOMMON_C := $(H)/vf_rt.c $(H)/ref.c $(H)/bind.c $(H)/vcase.c $(H)/oracle.c $(H)/wk.c $(H)/e1common.c $(H)/xs.c
HCOMMON_O := $(patsubst $(H)/%.c,$(B)/h/%.o,$(HCOMMON_C))
HBINS_SRC := $(wildcard $(H)/h_*.c)
HBINS     := $(patsubst $(H)/h_%.c,$(B)/h_%,$(HBINS_SRC))
ifneq ($(filter $(VARIANT),tsan mon),)
  HBINS   := $(B)/h_thr
endif
HFLAGS    := -Wall -Wno-unused -Wno-unknown-pragmas
ifeq ($(CC),$(GCC))
  HFLAGS += -fcx-limited-range
endif

# the access-monitor variant links the verif runtime instead of the TSan one
ifeq ($(VARIANT),mon)
  HLINK := $(CLANG) -O1 -rdynamic
  MONRT := $(B)/h/mon_rt.o
else ifeq ($(VARIANT),tsan)
  HLINK := $(CLANG) -fsanitize=thread -rdynamic
  MONRT :=
else
  HLINK := $(CC) $(VFLAGS) -rdynamic
  MONRT :=
endif

.PHONY: all bins lib clean variants
all:
	@for v in ref obl i64 asan tsan mon; do $(MAKE) --no-print-directory VARIANT=$$v bins || exit 1; done

bins: $(LIBA) $(HBINS)
lib: $(LIBA)

build/gen/superlu_config.h: | build/gen
	@if [ -f $(SLU_SRC)/SRC/superlu_config.h ]; then cp $(SLU_SRC)/SRC/superlu_config.h $@; \
	 else sed -e 's/#cmakedefine \([A-Z_0-9]*\).*/\/* #undef \1 *\//' $(SLU_SRC)/SRC/superlu_config.h.in > $@; fi
build/gen $(B)/lib $(B)/h:
	@mkdir -p $@

$(B)/lib/SRC_sp_ienv.o: $(SLU_SRC)/SRC/sp_ienv.c Makefile | $(B)/lib build/gen/superlu_config.h
	@$(CC) $(COMMON) $(VFLAGS) -Dsp_ienv=slu_default_sp_ienv -MMD -MP -c $< -o $@
$(B)/lib/SRC_memory.o: $(SLU_SRC)/SRC/memory.c $(H)/vf_hooks.h Makefile | $(B)/lib build/gen/superlu_config.h
	@$(CC) $(COMMON) $(VFLAGS) -Duser_bcopy=slu_user_bcopy -MMD -MP -c $< -o $@
$(B)/lib/SRC_input_error.o: $(SLU_SRC)/SRC/input_error.c $(H)/vf_hooks.h Makefile | $(B)/lib build/gen/superlu_config.h
	@$(CC) $(COMMON) $(VFLAGS) -Dinput_error=slu_input_error -MMD -MP -c $< -o $@
$(B)/lib/SRC_%.o: $(SLU_SRC)/SRC/%.c $(H)/vf_hooks.h | $(B)/lib build/gen/superlu_config.h
	@$(CC) $(COMMON) $(VFLAGS) -MMD -MP -c $< -o $@
$(B)/lib/CBLAS_%.o: $(SLU_SRC)/CBLAS/%.c $(H)/vf_hooks.h | $(B)/lib build/gen/superlu_config.h
	@$(CC) $(COMMON) $(VFLAGS) -MMD -MP -c $< -o $@
$(B)/lib/EXAMPLE_%.o: $(SLU_SRC)/EXAMPLE/%.c $(H)/vf_hooks.h | $(B)/lib build/gen/superlu_config.h
	@$(CC) $(COMMON) $(VFLAGS) -MMD -MP -c $< -o $@
$(B)/lib/FORTRAN_%.o: $(SLU_SRC)/FORTRAN/%.c $(H)/vf_hooks.h | $(B)/lib build/gen/superlu_config.h
	@$(CC) $(COMMON) $(VFLAGS) -MMD -MP -c $< -o $@

$(LIBA): $(LIB_O)
	@rm -f $@; ar rcs $@ $(LIB_O)

# harness objects: the runtime / monitor must NOT be sanitizer-instrumented in tsan/mon
ifeq ($(filter $(VARIANT),tsan mon),)
  RTFLAGS := $(VFLAGS)
else
  RTFLAGS := -O1 $(filter -D%,$(VFLAGS))
endif
$(B)/h/vf_rt.o: $(H)/vf_rt.c $(wildcard $(H)/*.h) | $(B)/h build/gen/superlu_config.h
	@$(CC) $(COMMON) $(RTFLAGS) $(HFLAGS) -MMD -MP -c $< -o $@
$(B)/h/mon_rt.o: $(H)/mon_rt.c $(wildcard $(H)/*.h) | $(B)/h build/gen/superlu_config.h
	@$(CC) $(COMMON) $(RTFLAGS) $(HFLAGS) -MMD -MP -c $< -o $@
$(B)/h/sched.o: $(H)/sched.c $(wildcard $(H)/*.h) | $(B)/h build/gen/superlu_config.h
	@$(CC) $(COMMON) $(RTFLAGS) $(HFLAGS) -MMD -MP -c $< -o $@
$(B)/h/%.o: $(H)/%.c $(wildcard $(H)/*.h) $(wildcard $(H)/*.inc) | $(B)/h build/gen/superlu_config.h
	@$(CC) $(COMMON) $(VFLAGS) $(HFLAGS) -MMD -MP -c $< -o $@

$(B)/h_%: $(B)/h/h_%.o $(HCOMMON_O) $(MONRT) $(LIBA)
	@$(HLINK) -o $@ $< $(HCOMMON_O) $(MONRT) $(LIBA) $(LIBS)

clean:
	rm -rf build

-include $(wildcard $(B)/lib/*.d) $(wildcard $(B)/h/*.d)
.SECONDARY:
