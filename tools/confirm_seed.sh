#!/bin/bash
# usage: tools/confirm_seed.sh <seed dir with patch.diff demo.c build_demo.sh> <scratch worktree dir>
# Confirms independently: patch applies, library builds, the 24-test suite stays green, the demo fails with the
# change and passes without it.  Prints one summary line; exit 0 iff all confirmed.
D=$1; W=$2
set -u
rm -rf "$W"; git -C /repo worktree add -f "$W" HEAD >/dev/null 2>&1 || { echo "$D worktree-failed"; exit 2; }
cleanup() { git -C /repo worktree remove --force "$W" >/dev/null 2>&1; rm -rf "$W"; }
trap cleanup EXIT
cd "$W"
# seeds are made against the pinned snapshot; the worktree is at /repo HEAD (snapshot + fix: commits)
git apply "$D/patch.diff" 2>/dev/null || { echo "$(basename $D) patch-does-not-apply"; exit 1; }
suite=$(/verif/tools/buildtest.sh "$W" 2>&1 | grep -c "100% tests passed")
( cd "$D" && bash ./build_demo.sh "$W" >/dev/null 2>&1 ); 
exe=$(ls -t "$D" | while read f; do [ -x "$D/$f" ] && [ ! -d "$D/$f" ] && [ "${f##*.}" != "sh" ] && echo "$f" && break; done)
with=1; ( cd "$D" && timeout 120 ./$exe >/dev/null 2>&1 ); with=$?
git checkout -- . ; /verif/tools/buildtest.sh "$W" >/dev/null 2>&1
( cd "$D" && bash ./build_demo.sh "$W" >/dev/null 2>&1 ); ( cd "$D" && timeout 120 ./$exe >/dev/null 2>&1 ); without=$?
echo "$(basename $D) suite_green=$suite demo_exe=$exe rc_with_change=$with rc_without=$without"
[ "$suite" = 1 ] && [ "$with" != 0 ] && [ "$without" = 0 ]
