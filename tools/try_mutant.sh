#!/bin/bash
# usage: tools/try_mutant.sh <patch.diff> <tier> <ID> [<ID>...]
# Applies a seeded change to the repository copy, runs the named checks, and always reverts.
# Environment: RROOT (default /repo) = tree to patch and to build from; VROOT (default /verif) = framework to run.
P=$1; TIER=$2; shift 2
RROOT=${RROOT:-/repo}; VROOT=${VROOT:-/verif}
cd $RROOT || exit 2
if ! git diff --quiet; then echo "$RROOT has uncommitted changes; refusing"; exit 2; fi
trap 'git -C $RROOT checkout -- . ; echo "[reverted $RROOT]"' EXIT
git apply "$P" || { echo "patch does not apply"; exit 2; }
cd $VROOT
for id in "$@"; do
  s=$(date +%s)
  out=$(SLU_SRC=$RROOT timeout 900 bin/check $id --tier $TIER 2>/tmp/try_mutant.$$.err | grep -E "^VIOLATION|^KNOWN" | cut -c1-160)
  nv=$(echo "$out" | grep -c "^VIOLATION")
  echo "== $id: violations=$nv ($(($(date +%s)-s))s)"
  echo "$out" | grep "^VIOLATION" | head -3
  grep -E "^  sig=" /tmp/try_mutant.$$.err | head -3 | cut -c1-260
  rm -f /tmp/try_mutant.$$.err
done
