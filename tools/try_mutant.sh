#!/bin/bash
# usage: tools/try_mutant.sh <patch.diff> <tier> <ID> [<ID>...]
# Applies a seeded change to /repo, runs the named checks, and always reverts /repo.
P=$1; TIER=$2; shift 2
cd /repo || exit 2
if ! git diff --quiet; then echo "/repo has uncommitted changes; refusing"; exit 2; fi
trap 'git -C /repo checkout -- . ; echo "[reverted /repo]"' EXIT
git apply "$P" || { echo "patch does not apply"; exit 2; }
cd /verif
for id in "$@"; do
  s=$(date +%s)
  out=$(bin/check $id --tier $TIER 2>/tmp/try_mutant.err | grep -E "^VIOLATION|^KNOWN" | cut -c1-160)
  rc=${PIPESTATUS[0]}
  nv=$(echo "$out" | grep -c "^VIOLATION")
  echo "== $id: violations=$nv ($(($(date +%s)-s))s)"
  echo "$out" | grep "^VIOLATION" | head -3
  grep -E "^  sig=" /tmp/try_mutant.err | head -3 | cut -c1-260
done
