#!/usr/bin/env python3
"""Builds the markdown table of DESIGN.md section 8 from seed_matrix logs (later logs override earlier lines)."""
import sys, json, re, os
rows = {}
for path in sys.argv[1:]:
    for line in open(path):
        parts = line.split()
        if not parts or not re.match(r'^C\d\d[a-z]$', parts[0]): continue
        rows[parts[0]] = parts[1:]
print("| seed | file(s) changed | caught by (first signature) | silent checks tried first |")
print("|---|---|---|---|")
for sid in sorted(rows):
    meta = {}
    mp = f"/verif/seeded/{sid}/meta.json"
    if os.path.exists(mp): meta = json.load(open(mp))
    files = ", ".join(os.path.basename(f) for f in meta.get("files_changed", []))
    caught, silent = "**not detected**", []
    for tok in rows[sid]:
        m = re.match(r'^(C\d\d):(\d+|\?)\((?:sig=)?(.*)\)$', tok)
        if not m: continue
        if m.group(2) not in ("0", "?"): caught = f"{m.group(1)} ({m.group(3)})"; break
        silent.append(m.group(1))
    print(f"| {sid} | {files} | {caught} | {' '.join(silent)} |")
