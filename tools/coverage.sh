#!/bin/bash
# usage: tools/coverage.sh [tier] [checks...]
# Vacuity audit: runs the given checks (default: all except C09) on the `cov` build (gcc --coverage) and lists, per library
# source file, the lines no case of the tier executed.  Output: build/cov/report.txt (summary) and build/cov/gcov/*.gcov.
# Not a check: it tells the author where the enumerated spaces never reach.
TIER=${1:-quick}; shift
CH=${@:-"h_e1:C02 h_e1:C04 h_e1x:C04x h_e1x:C05 h_e1x:C12 h_e1x:C13 h_e3:C06 h_e2:C07 h_e2:C08 h_k:C10 h_k:C11 h_k2:C14 h_k2:C19k h_ilu:C15 h_rd:C16 h_k3:C17 h_k4:C18 h_life:C19 h_fb:C20"}
cd /verif
make -j16 VARIANT=cov bins >/dev/null || exit 2
find build/cov -name "*.gcda" -delete
W=build/cov/work; mkdir -p $W
export OPENBLAS_NUM_THREADS=1
KS=$(python3 -c "import json; print(' '.join('--known-sig '+repr(k['sig_regex']) for k in json.load(open('known_findings.json'))['findings'] if k.get('status')=='open'))")
for bc in $CH; do
  b=${bc%%:*}; c=${bc##*:}; s0=$(date +%s)
  for s in $(seq 0 15); do
    eval build/cov/$b $c --tier $TIER --shard $s --nshards 16 --out $W/$c.$s.json --log $W/$c.$s.log --deadline ${DEADLINE:-600} --percase 20 --variant ref $KS >/dev/null 2>&1 &
  done; wait
  echo "$c done in $(($(date +%s)-s0))s" >&2
done
mkdir -p build/cov/gcov; cd build/cov/gcov; rm -f *.gcov
for o in ../lib/SRC_*.gcda ../lib/FORTRAN_*.gcda; do gcov -o $(dirname $o) $o >/dev/null 2>&1; done
python3 - <<'PY' > ../report.txt
import glob,re,os
rows=[]
for f in sorted(glob.glob('*.c.gcov')):
    tot=miss=0; missed=[]
    for l in open(f, errors='replace'):
        m=re.match(r'\s*([^:]+):\s*(\d+):(.*)',l)
        if not m: continue
        c,ln,src=m.group(1).strip(),int(m.group(2)),m.group(3)
        if c=='-' : continue
        tot+=1
        if c.startswith('#####') or c.startswith('====='): miss+=1; missed.append(ln)
    rows.append((f[:-5],tot,miss,missed))
never=[os.path.basename(p)[4:-2]+'.c' for p in glob.glob('../lib/SRC_*.o') if not os.path.exists(p[:-2]+'.gcda')]
print('files never entered:', ' '.join(sorted(never)))
for f,tot,miss,missed in sorted(rows,key=lambda r:-r[2]):
    if miss: 
        # compress ranges
        rs=[];a=b=None
        for x in missed:
            if a is None: a=b=x
            elif x<=b+2: b=x
            else: rs.append((a,b)); a=b=x
        rs.append((a,b))
        print(f"{f}: {miss}/{tot} not executed: "+' '.join(f'{a}-{b}' if a!=b else str(a) for a,b in rs))
PY
head -5 ../report.txt
