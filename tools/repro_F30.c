/* cgsisx: DOFACT(v2), SamePattern_SameRowPerm(v0), SamePattern_SameRowPerm(v2) on one 6x6 pattern */
#include <stdio.h>
#include <stdlib.h>
#include <string.h>
#include <math.h>
#include "slu_cdefs.h"
int sp_ienv(int ispec) { static const int t[8] = {0,2,1,2,1,1,1,2}; return (ispec >= 1 && ispec <= 7) ? t[ispec] : 0; }
#define N 6
static void fillv(singlecomplex *val, const int_t *cp, const int_t *ri, const float re[N][N], const float im[N][N])
{ for (int j = 0; j < N; j++) for (int_t k = cp[j]; k < cp[j+1]; k++) { val[k].r = re[ri[k]][j]; val[k].i = im[ri[k]][j]; } }
int main(void)
{
    float t = ldexpf(1.0f, -20);
    float r2[N][N] = {{t,0,0,0,0,0},{0,-t,0,0,0,-1},{0,0,0.6f*t,0,0,3},{0,0,0,0,0,0},{0,0,0,0,t,1.2f},{0,-2,0,-3,0,-t}};
    float i2[N][N] = {{0,0,0,0,0,0},{0,0,0,0,0,0},{0,0,0.8f*t,0,0,0},{0,0,0,t,0,5},{0,0,0,0,0,1.6f},{4,0,5,0,1,0}};
    float r0[N][N] = {{13,0,0,0,0,0},{0,-14,0,0,0,-1},{0,0,9,0,0,0.5f},{0,0,0,0,0,0},{0,0,0,0,14,0.6f},{0,-1,0,-1.5f,0,-15}};
    float i0[N][N] = {{0,0,0,0,0,0},{0,0,0,0,0,0},{0,0,12,0,0,0},{0,0,0,13,0,1.5f},{0,0,0,0,0,0.8f},{1.5f,0,0.5f,0,1,0}};
    int pat[N][N] = {{1,0,0,0,0,0},{0,1,0,0,0,1},{0,0,1,0,0,1},{0,0,0,1,0,1},{0,0,0,0,1,1},{1,1,1,1,1,1}};
    int_t cp[N+1], ri[N*N], nnz = 0; for (int j = 0; j < N; j++) { cp[j] = nnz; for (int i = 0; i < N; i++) if (pat[i][j]) ri[nnz++] = i; } cp[N] = nnz;
    singlecomplex *val = malloc(sizeof *val * nnz), b[N], x[N]; float R[N], C[N], rpg, rcond; int perm_c[N], perm_r[N], etree[N]; char equed[2] = "N";
    SuperMatrix A, L, U, B, X; GlobalLU_t Glu; mem_usage_t mu; SuperLUStat_t stat; int_t info; superlu_options_t o;
    memset(&Glu, 0, sizeof Glu);
    fillv(val, cp, ri, r2, i2);
    cCreate_CompCol_Matrix(&A, N, N, nnz, val, ri, cp, SLU_NC, SLU_C, SLU_GE);
    for (int i = 0; i < N; i++) { b[i].r = 1 + i; b[i].i = 0; }
    cCreate_Dense_Matrix(&B, N, 1, b, N, SLU_DN, SLU_C, SLU_GE); cCreate_Dense_Matrix(&X, N, 1, x, N, SLU_DN, SLU_C, SLU_GE);
    ilu_set_default_options(&o); o.ILU_DropRule = DROP_BASIC; o.ILU_DropTol = 0.5; o.ILU_FillFactor = 1.0; o.RowPerm = NOROWPERM; o.ColPerm = MMD_ATA; o.Equil = NO; o.DiagPivotThresh = 0.1; o.ConditionNumber = YES; o.PrintStat = NO;
    int bad = 0;
    for (int step = 0; step < 3; step++) {
        if (step == 1) fillv(val, cp, ri, r0, i0); if (step == 2) fillv(val, cp, ri, r2, i2);
        o.Fact = step ? SamePattern_SameRowPerm : DOFACT;
        for (int i = 0; i < N; i++) { b[i].r = 1 + i; b[i].i = 0; }
        StatInit(&stat);
        cgsisx(&o, &A, perm_c, perm_r, etree, equed, R, C, &L, &U, NULL, 0, &B, &X, &rpg, &rcond, &Glu, &mu, &stat, &info);
        StatFree(&stat);
        printf("step %d: info=%d perm_r =", step, (int)info); for (int i = 0; i < N; i++) printf(" %d", perm_r[i]); printf("\n");
        SCformat *Ls = L.Store;
        for (int s = 0; s <= Ls->nsuper; s++) { int f = Ls->sup_to_col[s], l = Ls->sup_to_col[s+1]; for (int k = 0; k < l - f; k++) { int r = Ls->rowind[Ls->rowind_colptr[f] + k]; if (r != f + k) { printf("  step %d: supernode %d (cols %d..%d): leading row %d is %d, expected %d\n", step, s, f, l-1, k, r, f+k); bad = 1; } } }
    }
    printf(bad ? "FAIL: L is malformed\n" : "PASS\n"); return bad;
}
