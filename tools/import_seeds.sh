#!/bin/bash
# usage: tools/import_seeds.sh <round> <dir with <id>/ subdirectories> <id>...
# Confirms each seed independently (tools/confirm_seed.sh, 4 at a time, each in its own scratch worktree under /tmp) and copies the confirmed ones to seeded/<id>/.
ROUND=$1; SRC=$2; shift 2
mkdir -p /tmp/mut/cw
confirm_one() {
  id=$1; res=$(/verif/tools/confirm_seed.sh $SRC/$id /tmp/mut/cw/$id 2>&1 | tail -1)
  echo "$res"
  case "$res" in *"suite_green=1"*"rc_with_change=0"*) return;; esac
  if echo "$res" | grep -q "suite_green=1" && echo "$res" | grep -q "rc_without=0" ; then
    mkdir -p /verif/seeded/$id
    for f in $SRC/$id/*; do [ -f "$f" ] && [ ! -x "$f" -o "${f##*.}" = "sh" ] && [ $(stat -c %s "$f") -lt 400000 ] && cp "$f" /verif/seeded/$id/; done
    files=$(grep "^+++ b/" $SRC/$id/patch.diff | sed 's/+++ b\///' | python3 -c "import sys,json; print(json.dumps([l.strip() for l in sys.stdin]))")
    python3 - "$id" "$ROUND" "$files" "$res" "$SRC" <<'PY'
import sys, json
sid, rnd, files, res, src = sys.argv[1:6]
json.dump({"id": sid, "round": int(rnd), "property": sid[:3], "files_changed": json.loads(files), "needs_to_manifest": "see notes.md",
  "origin": "independent sub-agent (round %s: asked for files and mechanisms not used by earlier rounds) given only the property text and a scratch worktree" % rnd,
  "confirmed": {"command": "tools/confirm_seed.sh %s/%s <scratch worktree>" % (src, sid), "result": res,
  "meaning": "patch applies to /repo HEAD; library builds; 24/24 tests pass with the change; demo exits non-zero with the change and 0 without"}},
  open("/verif/seeded/%s/meta.json" % sid, "w"), indent=1)
PY
  fi
}
export -f confirm_one; export SRC ROUND
printf "%s\n" "$@" | xargs -P 4 -I{} bash -c 'confirm_one {}'
