#!/bin/bash
# usage: tools/run_all.sh <quick|thorough> [IDs...]   -- runs the registered checks one after the other, prints one summary line each
TIER=${1:-quick}; shift
IDS=${@:-C01 C02 C03 C04 C05 C06 C07 C08 C09 C10 C11 C12 C13 C14 C15 C16 C17 C18 C19 C20}
cd /verif
for id in $IDS; do
  s=$(date +%s)
  out=$(bin/check $id --tier $TIER 2>&1); rc=$?
  echo "$id rc=$rc $(($(date +%s)-s))s $(echo "$out" | grep -E "^$id $TIER:" | tail -1)"
  echo "$out" | grep -E "^VIOLATION|^  sig=" | head -4
done
