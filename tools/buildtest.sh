#!/bin/bash
# usage: tools/buildtest.sh <worktree>   -- builds a scratch worktree with the configuration of /repo/_build and runs the 24-test suite
set -e
W=$1
cd "$W"
cmake -G Ninja -B _build -DCMAKE_BUILD_TYPE=RelWithDebInfo -DCMAKE_C_FLAGS=-Wno-error -Denable_fortran=OFF -Denable_tests=ON -Denable_examples=ON -DTPL_ENABLE_INTERNAL_BLASLIB=OFF -Denable_internal_blaslib=OFF > _build.log 2>&1 || { tail -20 _build.log; exit 2; }
cmake --build _build >> _build.log 2>&1 || { grep -E "error|Error" _build.log | head -20; exit 2; }
ctest --test-dir _build -j8 --timeout 900 2>&1 | tail -8
