#!/bin/bash
# Runs every seeded change under /verif/seeded against the quick check of its property (and, if that check stays silent,
# against the other checks named in tools/seed_also.txt).  Prints one line per seed.
VROOT=${VROOT:-/verif}; cd $VROOT
if [ -n "$SEED_LIST" ]; then LIST="$SEED_LIST"; else LIST=$(ls seeded | grep -E "${SEED_RE:-.}"); fi
for id in $LIST; do
  prop=${id:0:3}
  extra=$(grep "^$id " tools/seed_also.txt 2>/dev/null | cut -d' ' -f2-)
  res=""
  for p in $(echo $prop $extra | tr " " "\n" | awk "!s[\$0]++"); do
    out=$(tools/try_mutant.sh $VROOT/seeded/$id/patch.diff quick $p 2>&1)
    if echo "$out" | grep -q "patch does not apply"; then res="$res $p:PATCH-DOES-NOT-APPLY"; break; fi
    nv=$(echo "$out" | grep -o "violations=[0-9]*" | head -1 | cut -d= -f2)
    sig=$(echo "$out" | grep -o "sig=[^ ]*" | head -1)
    res="$res $p:${nv:-?}($sig)"
    [ "${nv:-0}" != "0" ] && break
  done
  echo "$id$res"
done
